//! C08 — process data of one SubDevice reaches that SubDevice and nothing else.
//!
//! Per case: a simulated line of 1..16 devices with random sync managers / PDO sets / FMMU lists
//! (EEPROM path and CoE path), split over 1..3 groups with declared MAX_PDI. The REAL
//! `MainDevice::init` -> `into_safe_op` -> `into_op` -> `tx_rx` run against it. Compared with the
//! Lean model (`drv_c08`): group start/read_len/pdi_len or the error, every SubDevice's input and
//! output window (hook `verif::config::io_ranges`) and the SM / FMMU registers found in the
//! simulated controllers.
//!
//! Independent monitors (oracle = plain prefix sums over the description, in u64):
//!  * windows inside the image, inputs before outputs, pairwise disjoint, required byte length;
//!    logical ranges of different groups disjoint; too long <=> PdiTooLong;
//!  * PDO bit lengths whose sum / product with the oversampling factor exceeds u16 (repaired defect
//!    c08/pdo-bit-length-u16-overflow) are ordinary cases: exact windows, or PdiTooLong with the true
//!    length, or - iff a sync manager / shared FMMU needs more than 65535 BYTES - an error
//!    (IntegerTypeConversion). A panic or a window of the wrong length is a violation under that key;
//!  * marker round trip: a distinct pattern per device written through the group image arrives in
//!    exactly that device's output sync manager memory and nowhere else in any controller; a
//!    distinct pattern put into each device's input memory shows up in exactly its input window.
use ecverif::exec::{Net, run};
use ecverif::rng::Rng;
use ecverif::sim::{DeviceDesc, Segment};
use ecverif::util::Report;
use ethercrab::error::{Error, Item};
use ethercrab::subdevice_group::Op;
use ethercrab::{DefaultLock, MainDevice, SubDeviceGroup, SubDeviceGroupHandle};
use std::collections::BTreeMap;
use std::future::Future;
use std::ops::Range;
use std::panic::{AssertUnwindSafe, catch_unwind};
use std::pin::Pin;

use ecverif::sim::{MailboxDesc, PdoDesc, PdoEntryDesc, SmDesc};

const SIZES: [usize; 6] = [1, 6, 40, 300, 4000, 65535];
const RAM0: usize = 0x1000;

// ------------------------------------------------------------------------------------------ cases

#[derive(Clone, Debug, PartialEq)]
struct Dev {
    slot: usize,
    /// (receive size, send size, protocols)
    mbx: (u16, u16, u16),
    sms: Vec<SmDesc>,
    fmmus: Vec<u8>,
    fmmu_ex: Vec<u8>,
    tx: Vec<PdoDesc>,
    rx: Vec<PdoDesc>,
    os: Vec<(u16, u16)>,
    fmmu_count: u8,
}

#[derive(Clone, Debug, PartialEq)]
struct Case {
    max_pdi: [usize; 3],
    devs: Vec<Dev>,
}

fn mode() -> &'static str {
    if cfg!(debug_assertions) { "checked" } else { "wrapping" }
}

fn join<T>(xs: &[T], sep: &str, f: impl Fn(&T) -> String) -> String {
    if xs.is_empty() { "-".to_string() } else { xs.iter().map(f).collect::<Vec<_>>().join(sep) }
}

fn pdo_str(p: &PdoDesc) -> String {
    let es = if p.entries.is_empty() { "e".to_string() } else { p.entries.iter().map(|e| e.bits.to_string()).collect::<Vec<_>>().join("+") };
    format!("{}.{}.{}", p.index, p.sm, es)
}

impl Case {
    fn line(&self) -> String {
        let devs = self
            .devs
            .iter()
            .map(|d| {
                format!(
                    "{}/{}.{}.{}/{}/{}/{}/{}/{}/{}/{}",
                    d.slot,
                    d.mbx.0,
                    d.mbx.1,
                    d.mbx.2,
                    join(&d.sms, ",", |s| format!("{}.{}.{}.{}", s.start, s.control, s.enable, s.usage)),
                    join(&d.fmmus, ",", |u| u.to_string()),
                    join(&d.fmmu_ex, ",", |u| u.to_string()),
                    join(&d.tx, ",", pdo_str),
                    join(&d.rx, ",", pdo_str),
                    join(&d.os, ",", |o| format!("{}.{}", o.0, o.1)),
                    d.fmmu_count
                )
            })
            .collect::<Vec<_>>()
            .join("|");
        format!("c08 {} {},{},{} {}", mode(), self.max_pdi[0], self.max_pdi[1], self.max_pdi[2], devs)
    }

    fn parse(line: &str) -> Option<Case> {
        let t: Vec<&str> = line.split_whitespace().collect();
        if t.len() != 4 || t[0] != "c08" {
            return None;
        }
        let mx: Vec<usize> = t[2].split(',').filter_map(|x| x.parse().ok()).collect();
        if mx.len() != 3 || mx.iter().any(|m| !SIZES.contains(m)) {
            return None;
        }
        let list = |s: &str, sep: char| -> Vec<String> { if s == "-" { vec![] } else { s.split(sep).map(|x| x.to_string()).collect() } };
        let pdo = |s: &String| -> Option<PdoDesc> {
            let f: Vec<&str> = s.split('.').collect();
            if f.len() != 3 {
                return None;
            }
            let entries = if f[2] == "e" { vec![] } else { f[2].split('+').enumerate().map(|(k, b)| PdoEntryDesc { index: 0x6000, sub: (k + 1) as u8, bits: b.parse().unwrap_or(0) }).collect() };
            Some(PdoDesc { index: f[0].parse().ok()?, sm: f[1].parse().ok()?, entries })
        };
        let mut devs = Vec::new();
        for ds in t[3].split('|') {
            let f: Vec<&str> = ds.split('/').collect();
            if f.len() != 9 {
                return None;
            }
            let mb: Vec<u16> = f[1].split('.').filter_map(|x| x.parse().ok()).collect();
            if mb.len() != 3 {
                return None;
            }
            let mut sms = Vec::new();
            for s in list(f[2], ',') {
                let q: Vec<u32> = s.split('.').filter_map(|x| x.parse().ok()).collect();
                if q.len() != 4 {
                    return None;
                }
                sms.push(SmDesc { start: q[0] as u16, len: 0, control: q[1] as u8, enable: q[2] as u8, usage: q[3] as u8 });
            }
            devs.push(Dev {
                slot: f[0].parse().ok()?,
                mbx: (mb[0], mb[1], mb[2]),
                sms,
                fmmus: list(f[3], ',').iter().filter_map(|x| x.parse().ok()).collect(),
                fmmu_ex: list(f[4], ',').iter().filter_map(|x| x.parse().ok()).collect(),
                tx: list(f[5], ',').iter().filter_map(pdo).collect(),
                rx: list(f[6], ',').iter().filter_map(pdo).collect(),
                os: list(f[7], ',').iter().filter_map(|s| s.split_once('.').and_then(|(a, b)| Some((a.parse().ok()?, b.parse().ok()?)))).collect(),
                fmmu_count: f[8].parse().ok()?,
            });
        }
        Some(Case { max_pdi: [mx[0], mx[1], mx[2]], devs })
    }
}

// ------------------------------------------------------------------ independent oracle (u64 sums)

impl Dev {
    fn usage_type(s: &SmDesc) -> u8 {
        if (1..=4).contains(&s.usage) {
            s.usage
        } else {
            match (s.control & 3, (s.control >> 2) & 3) {
                (0, 0) => 4,
                (0, _) => 3,
                (_, 0) => 2,
                _ => 1,
            }
        }
    }
    fn has_mailbox(&self) -> bool {
        (self.mbx.2 != 0 && self.mbx.0 > 0) || self.mbx.1 > 0
    }
    /// `has_coe` as the MainDevice will decide it.
    fn coe(&self) -> bool {
        self.has_mailbox() && self.mbx.2 & 4 != 0 && self.mbx.1 > 0 && self.sms.iter().any(|s| Self::usage_type(s) == 2)
    }
    fn os_of(&self, pdo: u16) -> u64 {
        self.os.iter().find(|o| o.0 == pdo).map(|o| o.1 as u64).unwrap_or(1)
    }
    /// (exact bits of SM `i`, some intermediate would overflow u16 - the arithmetic of the code before the
    /// repair of c08/pdo-bit-length-u16-overflow) for direction type `ty` (3 out, 4 in).
    fn sm_bits(&self, i: usize, ty: u8) -> (u64, bool) {
        let pdos = if ty == 3 { &self.rx } else { &self.tx };
        let mut total = 0u64;
        let mut ovf = false;
        for p in pdos.iter().filter(|p| p.sm as usize == i) {
            let b: u64 = p.entries.iter().map(|e| e.bits as u64).sum();
            ovf |= b > 65535;
            let b = b * self.os_of(p.index);
            ovf |= b > 65535;
            total += b;
            ovf |= total > 65535;
        }
        ovf |= total + 7 > 65535;
        (total, ovf)
    }
    /// Sync managers of a direction in description order: (index, start, byte length, overflow).
    fn dir_sms(&self, ty: u8) -> Vec<(usize, u16, u64, bool)> {
        self.sms
            .iter()
            .enumerate()
            .filter(|(_, s)| Self::usage_type(s) == ty)
            .map(|(i, s)| {
                let (b, o) = self.sm_bits(i, ty);
                (i, s.start, b.div_ceil(8), o)
            })
            .collect()
    }
    fn dir_len(&self, ty: u8) -> u64 {
        self.dir_sms(ty).iter().map(|x| x.2).sum()
    }
    /// The class of the repaired defect: some bit-length sum exceeds u16 (used to name failures and to
    /// record the input distribution; such a device is otherwise an ordinary one).
    fn overflows(&self) -> bool {
        [3u8, 4].iter().any(|&t| self.dir_sms(t).iter().any(|x| x.3))
    }
    /// The configuration cannot be programmed at all: a sync manager needs more than 65535 bytes, or
    /// (CoE path: all non-empty sync managers of a direction extend ONE FMMU) an FMMU would.
    fn unrepresentable(&self) -> bool {
        [3u8, 4].iter().any(|&t| {
            let sms = self.dir_sms(t);
            sms.iter().any(|x| x.2 > 65535) || (self.coe() && sms.iter().map(|x| x.2).sum::<u64>() > 65535)
        })
    }
    /// The process-data sync managers lie inside the 64 KiB physical address space above the register
    /// area and do not overlap each other: only then is the marker round trip meaningful.
    fn fits_ram(&self) -> bool {
        let mut all: Vec<(u64, u64)> = Vec::new();
        for t in [3u8, 4] {
            for (_, start, len, _) in self.dir_sms(t) {
                if len > 0 {
                    all.push((start as u64, start as u64 + len));
                }
            }
        }
        all.iter().all(|r| r.0 >= RAM0 as u64 && r.1 <= 65536)
            && (0..all.len()).all(|x| (x + 1..all.len()).all(|y| all[x].1 <= all[y].0 || all[y].1 <= all[x].0))
    }
    /// CoE path, two or more non-empty SMs of one direction that are not physically contiguous.
    fn shared_fmmu_noncontiguous(&self) -> bool {
        if !self.coe() {
            return false;
        }
        [3u8, 4].iter().any(|&t| {
            let ne: Vec<_> = self.dir_sms(t).into_iter().filter(|x| x.2 > 0).collect();
            ne.windows(2).any(|w| w[0].1 as u64 + w[0].2 != w[1].1 as u64)
        })
    }
    /// EEPROM path: the FMMU used for SM i is FMMU i; it does not exist if i >= fmmu_count.
    fn fmmu_index_beyond_count(&self) -> bool {
        !self.coe() && [3u8, 4].iter().any(|&t| self.dir_sms(t).iter().any(|x| x.2 > 0 && x.0 >= self.fmmu_count.min(16) as usize))
    }
    /// Anything that makes `init`/configuration fail for reasons that are not the property's business.
    fn desc(&self, k: usize) -> DeviceDesc {
        DeviceDesc {
            name: Some(format!("D{k}")),
            mailbox: if self.mbx == (0, 0, 0) {
                None
            } else {
                let rx = self.sms.iter().find(|s| Self::usage_type(s) == 1).map(|s| s.start).unwrap_or(0x1000);
                let tx = self.sms.iter().find(|s| Self::usage_type(s) == 2).map(|s| s.start).unwrap_or(0x1080);
                Some(MailboxDesc { rx_offset: rx, rx_size: self.mbx.0, tx_offset: tx, tx_size: self.mbx.1, protocols: self.mbx.2, coe_details: 0x01 })
            },
            sms: self.sms.clone(),
            fmmus: self.fmmus.clone(),
            fmmu_ex: self.fmmu_ex.iter().map(|&s| [0, s, 0]).collect(),
            tx_pdos: self.tx.clone(),
            rx_pdos: self.rx.clone(),
            fmmu_count: self.fmmu_count,
            sii_chunk: 8,
            ..Default::default()
        }
    }
}

fn pat_out(k: usize, j: usize) -> u8 {
    (0x31u32.wrapping_add(k as u32 * 17).wrapping_add(j as u32 * 29) as u8) | 1
}
fn pat_in(k: usize, j: usize) -> u8 {
    (0xa7u32.wrapping_add(k as u32 * 41).wrapping_add(j as u32 * 13) as u8) | 2
}

// ---------------------------------------------------------------------------- running the real code

#[derive(Default)]
struct Groups {
    g0: [SubDeviceGroup<16, { SIZES[0] }>; 3],
    g1: [SubDeviceGroup<16, { SIZES[1] }>; 3],
    g2: [SubDeviceGroup<16, { SIZES[2] }>; 3],
    g3: [SubDeviceGroup<16, { SIZES[3] }>; 3],
    g4: [SubDeviceGroup<16, { SIZES[4] }>; 3],
    g5: [SubDeviceGroup<16, { SIZES[5] }>; 3],
}

type Md = &'static MainDevice<'static>;

/// A group in OP with the const parameter erased.
trait OpGroup {
    fn layout(&self) -> (u32, usize, usize);
    fn addrs(&self, md: Md) -> Vec<u16>;
    fn io(&self, md: Md, i: usize) -> (Range<usize>, Range<usize>);
    fn set_outputs(&self, md: Md, i: usize, f: &dyn Fn(usize) -> u8);
    fn inputs(&self, md: Md, i: usize) -> Vec<u8>;
    fn outputs(&self, md: Md, i: usize) -> Vec<u8>;
    fn tx_rx<'a>(&'a self, md: Md) -> Pin<Box<dyn Future<Output = Result<u16, Error>> + 'a>>;
}

impl<const P: usize> OpGroup for SubDeviceGroup<16, P, DefaultLock, Op> {
    fn layout(&self) -> (u32, usize, usize) {
        self.verif_layout()
    }
    fn addrs(&self, md: Md) -> Vec<u16> {
        self.iter(md).map(|s| s.configured_address()).collect()
    }
    fn io(&self, md: Md, i: usize) -> (Range<usize>, Range<usize>) {
        let sd = self.subdevice(md, i).unwrap();
        ethercrab::verif::config::io_ranges(&sd)
    }
    fn set_outputs(&self, md: Md, i: usize, f: &dyn Fn(usize) -> u8) {
        let sd = self.subdevice(md, i).unwrap();
        let mut o = sd.outputs_raw_mut();
        for (j, b) in o.iter_mut().enumerate() {
            *b = f(j);
        }
    }
    fn inputs(&self, md: Md, i: usize) -> Vec<u8> {
        self.subdevice(md, i).unwrap().inputs_raw().to_vec()
    }
    fn outputs(&self, md: Md, i: usize) -> Vec<u8> {
        self.subdevice(md, i).unwrap().outputs_raw().to_vec()
    }
    fn tx_rx<'a>(&'a self, md: Md) -> Pin<Box<dyn Future<Output = Result<u16, Error>> + 'a>> {
        Box::pin(async move { SubDeviceGroup::tx_rx(self, md).await.map(|r| r.working_counter) })
    }
}

fn err_token(e: &Error) -> String {
    match e {
        Error::PdiTooLong { max_length, desired_length } => format!("TooLong.{max_length}.{desired_length}"),
        Error::NotFound { item: Item::Fmmu, .. } => "NotFoundFmmu".to_string(),
        Error::Mailbox(_) => "Sdo".to_string(),
        Error::Capacity(Item::SyncManager) => "Capacity".to_string(),
        Error::IntegerTypeConversion => "IntConv".to_string(),
        e => format!("Other({e:?})").replace(' ', ""),
    }
}

struct Up {
    /// group start address as stored by `into_pre_op`
    start: u32,
    /// Ok((read_len, pdi_len, windows per member)) after into_safe_op
    safe: Result<(usize, usize, Vec<(Range<usize>, Range<usize>)>), String>,
    op: Option<Box<dyn OpGroup>>,
}

async fn bring_up<const P: usize>(md: Md, mut g: SubDeviceGroup<16, P>, os: &BTreeMap<u16, &'static [(u16, u16)]>) -> Up {
    let start = g.verif_layout().0;
    for mut sd in g.iter_mut(md) {
        if let Some(o) = os.get(&sd.configured_address()) {
            sd.set_oversampling(o);
        }
    }
    let g = match g.into_safe_op(md).await {
        Ok(g) => g,
        Err(e) => return Up { start, safe: Err(err_token(&e)), op: None },
    };
    let (_, rd, len) = g.verif_layout();
    let n = g.len();
    let wins = (0..n).map(|i| ethercrab::verif::config::io_ranges(&g.subdevice(md, i).unwrap())).collect();
    match g.into_op(md).await {
        Ok(g) => Up { start, safe: Ok((rd, len, wins)), op: Some(Box::new(g)) },
        Err(e) => Up { start, safe: Err(format!("IntoOp({})", err_token(&e))), op: None },
    }
}

fn regs_string(d: &ecverif::sim::Esc) -> String {
    let mut v = Vec::new();
    for i in 0..16usize {
        let mut b = d.mem[0x800 + 8 * i..0x808 + 8 * i].to_vec();
        b[5] = 0; // status: read-only, maintained by the controller
        if b.iter().any(|&x| x != 0) {
            v.push(format!("S{i}={}", ecverif::util::hex(&b)));
        }
    }
    for i in 0..16usize {
        let b = &d.mem[0x600 + 16 * i..0x610 + 16 * i];
        if b.iter().any(|&x| x != 0) {
            v.push(format!("F{i}={}", ecverif::util::hex(b)));
        }
    }
    if v.is_empty() { "-".to_string() } else { v.join("+") }
}

/// Order in which the groups are brought up: the order `init` gave them their addresses in (the
/// IndexMap of groups is drained from the back: reverse order of first appearance). Only used to
/// run the groups in the same order as the model does; no monitor depends on it.
fn order(c: &Case) -> Vec<usize> {
    let mut o = Vec::new();
    for d in &c.devs {
        if !o.contains(&d.slot) {
            o.push(d.slot);
        }
    }
    o.reverse();
    o
}

fn members(c: &Case, slot: usize) -> Vec<usize> {
    (0..c.devs.len()).filter(|&k| c.devs[k].slot == slot).collect()
}

fn run_case(c: &Case, rep: &mut Report) -> String {
    let line = c.line();
    let descs: Vec<DeviceDesc> = c.devs.iter().enumerate().map(|(k, d)| d.desc(k)).collect();
    let seg = Segment::from_descs(&descs);
    let (mut net, md) = Net::simple(seg);
    net.step_limit = 60_000_000;
    let size_idx: Vec<usize> = c.max_pdi.iter().map(|m| SIZES.iter().position(|s| s == m).unwrap()).collect();
    let slots: Vec<usize> = c.devs.iter().map(|d| d.slot).collect();
    let os: BTreeMap<u16, &'static [(u16, u16)]> = c
        .devs
        .iter()
        .enumerate()
        .filter(|(_, d)| !d.os.is_empty())
        .map(|(k, d)| (0x1000 + k as u16, &*Box::leak(d.os.clone().into_boxed_slice())))
        .collect();
    let ord = order(c);
    let n = c.devs.len();

    // ---- init
    let init = catch_unwind(AssertUnwindSafe(|| {
        run(&mut net, async {
            md.init::<16, Groups>(|| ecverif::clock::now() * 1000, Groups::default(), |g: &Groups, sd| {
                let k = (sd.configured_address() - 0x1000) as usize;
                let s = slots[k];
                let h: &dyn SubDeviceGroupHandle = match size_idx[s] {
                    0 => &g.g0[s],
                    1 => &g.g1[s],
                    2 => &g.g2[s],
                    3 => &g.g3[s],
                    4 => &g.g4[s],
                    _ => &g.g5[s],
                };
                Ok(h)
            })
            .await
        })
    }));
    let groups = match init {
        Err(_) => return "init-panic".to_string(),
        Ok(Err(st)) => return format!("init-stuck.{st:?}"),
        Ok(Ok(Err(e))) => {
            unsafe { net.recycle() };
            return format!("init-err.{}", err_token(&e));
        }
        Ok(Ok(Ok(g))) => g,
    };
    let Groups { g0, g1, g2, g3, g4, g5 } = groups;
    let mut g0: Vec<_> = g0.into_iter().map(Some).collect();
    let mut g1: Vec<_> = g1.into_iter().map(Some).collect();
    let mut g2: Vec<_> = g2.into_iter().map(Some).collect();
    let mut g3: Vec<_> = g3.into_iter().map(Some).collect();
    let mut g4: Vec<_> = g4.into_iter().map(Some).collect();
    let mut g5: Vec<_> = g5.into_iter().map(Some).collect();

    // start addresses as stored by `init` (hook), before anything else happens to the groups
    let starts: BTreeMap<usize, u32> = ord
        .iter()
        .map(|&s| {
            let st = match size_idx[s] {
                0 => g0[s].as_ref().unwrap().verif_layout().0,
                1 => g1[s].as_ref().unwrap().verif_layout().0,
                2 => g2[s].as_ref().unwrap().verif_layout().0,
                3 => g3[s].as_ref().unwrap().verif_layout().0,
                4 => g4[s].as_ref().unwrap().verif_layout().0,
                _ => g5[s].as_ref().unwrap().verif_layout().0,
            };
            (s, st)
        })
        .collect();

    // ---- per group: into_safe_op, into_op
    let mut gs: Vec<String> = Vec::new();
    let mut ds: Vec<String> = vec!["?".to_string(); n];
    let mut ups: Vec<(usize, Up)> = Vec::new();
    let mut dead = false;
    for &s in &ord {
        let mem = members(c, s);
        if dead {
            gs.push(format!("{s}:{}:skipped", starts[&s]));
            for &k in &mem {
                ds[k] = "x,x".to_string();
            }
            continue;
        }
        let r = catch_unwind(AssertUnwindSafe(|| match size_idx[s] {
            0 => run(&mut net, bring_up(md, g0[s].take().unwrap(), &os)),
            1 => run(&mut net, bring_up(md, g1[s].take().unwrap(), &os)),
            2 => run(&mut net, bring_up(md, g2[s].take().unwrap(), &os)),
            3 => run(&mut net, bring_up(md, g3[s].take().unwrap(), &os)),
            4 => run(&mut net, bring_up(md, g4[s].take().unwrap(), &os)),
            _ => run(&mut net, bring_up(md, g5[s].take().unwrap(), &os)),
        }));
        match r {
            Err(_) => {
                dead = true;
                gs.push(format!("{s}:{}:panic", starts[&s]));
                for &k in &mem {
                    ds[k] = "x,x".to_string();
                }
                let ov: Vec<usize> = mem.iter().copied().filter(|&k| c.devs[k].overflows() || c.devs[k].unrepresentable()).collect();
                if ov.is_empty() {
                    rep.fail("c08/unexpected-panic", &format!("group {s}: configuration panicked although no bit-length sum overflows u16"), &line);
                } else {
                    rep.fail(
                        "c08/pdo-bit-length-u16-overflow",
                        &format!("group {s}: into_safe_op panics (arithmetic overflow) instead of configuring or returning an error; device(s) {ov:?} have a sync manager whose PDO bit lengths x oversampling (+7) exceed u16"),
                        &line,
                    );
                }
            }
            Ok(Err(st)) => {
                dead = true;
                gs.push(format!("{s}:{}:stuck.{st:?}", starts[&s]));
            }
            Ok(Ok(up)) => {
                match &up.safe {
                    Ok((rd, len, wins)) => {
                        gs.push(format!("{s}:{}:ok.{rd}.{len}", up.start));
                        for (i, &k) in mem.iter().enumerate() {
                            let (a, b) = &wins[i];
                            ds[k] = format!("{}.{}.{}.{},{}", a.start, a.end, b.start, b.end, regs_string(&net.seg.devices[k]));
                        }
                    }
                    Err(tok) => {
                        gs.push(format!("{s}:{}:err.{tok}", up.start));
                        let too_long = tok.starts_with("TooLong");
                        for &k in &mem {
                            ds[k] = if too_long { format!("x,{}", regs_string(&net.seg.devices[k])) } else { "x,x".to_string() };
                        }
                    }
                }
                ups.push((s, up));
            }
        }
    }
    let answer = format!("{}|{}", gs.join(";"), ds.join(";"));
    if dead {
        // the MainDevice may hold a frame of the unwound future; do not reuse anything
        std::mem::forget(ups);
        return answer;
    }

    // everything that touches the configured groups again (window accessors, image slicing, real
    // tx_rx cycles) runs under catch_unwind: a panic there is a finding about the case, not a
    // reason for the harness to die
    let r = catch_unwind(AssertUnwindSafe(|| monitors(c, &line, &mut net, md, &ord, &starts, &ups, rep)));
    if r.is_err() {
        rep.fail("c08/panic-after-config", "a group reached SAFE-OP/OP, then using it (io accessors / tx_rx / image slicing) panicked", &line);
        std::mem::forget(ups);
        return answer;
    }
    drop(ups);
    unsafe { net.recycle() };
    answer
}

// ------------------------------------------------------------------------------------- monitors

fn monitors(c: &Case, line: &str, net: &mut Net, md: Md, ord: &[usize], starts: &BTreeMap<usize, u32>, ups: &[(usize, Up)], rep: &mut Report) {
    // (1) oracle layout per group and structural checks
    let mut ranges: Vec<(usize, u64, u64)> = Vec::new();
    for &s in ord {
        let start = starts[&s] as u64;
        let Some((_, up)) = ups.iter().find(|(x, _)| *x == s) else { continue };
        let mem = members(c, s);
        // `ovf`: the group contains the class of the repaired u16 defect (names the failure);
        // `unrep`: some length cannot be programmed at all, the group must end in an error
        let ovf = mem.iter().any(|&k| c.devs[k].overflows());
        let unrep = mem.iter().any(|&k| c.devs[k].unrepresentable());
        let in_total: u64 = mem.iter().map(|&k| c.devs[k].dir_len(4)).sum();
        let out_total: u64 = mem.iter().map(|&k| c.devs[k].dir_len(3)).sum();
        let total = in_total + out_total;
        if up.start as u64 != start {
            rep.fail("c08/group-start-moved", &format!("group {s}: start address {:#x} after init, {:#x} when configured", start, up.start), line);
        }
        match &up.safe {
            Err(tok) if tok.starts_with("TooLong") => {
                if unrep {
                    rep.fail("c08/pdo-bit-length-u16-overflow", &format!("group {s}: a sync manager / FMMU length beyond 65535 bytes was programmed (wrapped), then {tok}"), line);
                } else if total <= c.max_pdi[s] as u64 {
                    rep.fail(if ovf { "c08/pdo-bit-length-u16-overflow" } else { "c08/spurious-too-long" }, &format!("group {s}: {tok} but the layout needs {total} <= {}", c.max_pdi[s]), line);
                } else if *tok != format!("TooLong.{}.{}", c.max_pdi[s], total) {
                    rep.fail(if ovf { "c08/pdo-bit-length-u16-overflow" } else { "c08/too-long-values" }, &format!("group {s}: {tok}, expected desired_length {total}"), line);
                }
            }
            Err(tok) if tok == "IntConv" => {
                if !unrep {
                    rep.fail("c08/spurious-length-error", &format!("group {s}: IntegerTypeConversion although every sync manager and FMMU length fits 65535 bytes (layout needs {total} bytes)"), line);
                }
            }
            Err(_) => {}
            Ok((rd, len, wins)) => {
                ranges.push((s, start, start + *len as u64));
                // direct, oracle-free: what was accepted must fit the image the caller declared
                let cap = c.max_pdi[s];
                let outside: Vec<String> = mem
                    .iter()
                    .enumerate()
                    .flat_map(|(i, &k)| [(k, "inputs", wins[i].0.clone()), (k, "outputs", wins[i].1.clone())])
                    .filter(|(_, _, w)| w.end > cap || w.start > cap)
                    .map(|(k, what, w)| format!("device {k} {what} {w:?}"))
                    .collect();
                if *len > cap || *rd > cap || !outside.is_empty() {
                    rep.fail(
                        "c08/too-long-accepted",
                        &format!(
                            "group {s}: into_safe_op/into_op returned Ok with read_pdi_len {rd}, pdi_len {len} for an image of MAX_PDI = {cap} bytes (no PdiTooLong); windows outside the image: [{}]; its FMMUs reach logical {:#x}, the group's range ends at {:#x}",
                            outside.join(", "),
                            start + *len as u64,
                            start + cap as u64
                        ),
                        line,
                    );
                }
                if unrep {
                    rep.fail("c08/pdo-bit-length-u16-overflow", &format!("group {s}: into_safe_op succeeded although a sync manager / FMMU needs more than 65535 bytes: the length register holds a wrapped value"), line);
                    continue;
                }
                if ovf {
                    // the class of the repaired defect: name a wrong length after it
                    let wrong: Vec<usize> = mem
                        .iter()
                        .enumerate()
                        .filter(|&(i, &k)| c.devs[k].overflows() && (wins[i].0.len() as u64 != c.devs[k].dir_len(4) || wins[i].1.len() as u64 != c.devs[k].dir_len(3)))
                        .map(|(_, &k)| k)
                        .collect();
                    if !wrong.is_empty() {
                        rep.fail("c08/pdo-bit-length-u16-overflow", &format!("group {s}: a bit-length sum wrapped silently; the windows of device(s) {wrong:?} do not have the length the PDO configuration requires"), line);
                        continue;
                    }
                }
                let bad_cfg = mem.iter().any(|&k| {
                    let d = &c.devs[k];
                    // a CoE device whose needed FMMU usage is missing fails with NotFound, not here
                    d.coe() && ((d.dir_len(4) > 0 && !d.fmmus.contains(&2)) || (d.dir_len(3) > 0 && !d.fmmus.contains(&1)))
                });
                if bad_cfg {
                    continue;
                }
                if total > c.max_pdi[s] as u64 {
                    rep.fail("c08/too-long-not-error", &format!("group {s}: needs {total} bytes > MAX_PDI {} but into_safe_op succeeded", c.max_pdi[s]), line);
                }
                if *len as u64 != total || *rd as u64 != in_total {
                    rep.fail("c08/image-length", &format!("group {s}: read_len {rd} pdi_len {len}, required {in_total} / {total}"), line);
                }
                if *len > c.max_pdi[s] {
                    rep.fail("c08/image-exceeds-capacity", &format!("group {s}: pdi_len {len} > MAX_PDI {}", c.max_pdi[s]), line);
                }
                let mut all: Vec<(usize, bool, Range<usize>)> = Vec::new();
                for (i, &k) in mem.iter().enumerate() {
                    let (a, b) = &wins[i];
                    let d = &c.devs[k];
                    if a.start > a.end || a.end > *rd {
                        rep.fail("c08/input-window-outside", &format!("device {k}: inputs {a:?} not inside the input part 0..{rd}"), line);
                    }
                    if b.start > b.end || b.start < *rd || b.end > *len {
                        // an empty output window of a device without outputs sits at the current offset, which is fine
                        rep.fail("c08/output-window-outside", &format!("device {k}: outputs {b:?} not inside the output part {rd}..{len}"), line);
                    }
                    if a.len() as u64 != d.dir_len(4) {
                        rep.fail("c08/input-window-length", &format!("device {k}: input window {a:?}, PDO configuration requires {} bytes", d.dir_len(4)), line);
                    }
                    if b.len() as u64 != d.dir_len(3) {
                        rep.fail("c08/output-window-length", &format!("device {k}: output window {b:?}, PDO configuration requires {} bytes", d.dir_len(3)), line);
                    }
                    all.push((k, false, a.clone()));
                    all.push((k, true, b.clone()));
                }
                for x in 0..all.len() {
                    for y in x + 1..all.len() {
                        let (p, q) = (&all[x].2, &all[y].2);
                        if !p.is_empty() && !q.is_empty() && p.start < q.end && q.start < p.end {
                            rep.fail("c08/windows-overlap", &format!("device {} {:?} overlaps device {} {:?}", all[x].0, p, all[y].0, q), line);
                        }
                    }
                }
            }
        }
    }
    for x in 0..ranges.len() {
        for y in x + 1..ranges.len() {
            let (p, q) = (ranges[x], ranges[y]);
            if p.1 < p.2 && q.1 < q.2 && p.1 < q.2 && q.1 < p.2 {
                rep.fail("c08/groups-overlap", &format!("logical ranges of group {} [{:#x},{:#x}) and group {} [{:#x},{:#x}) overlap", p.0, p.1, p.2, q.0, q.1, q.2), line);
            }
        }
    }

    // (2) marker round trip over every group that reached OP
    let live: Vec<&(usize, Up)> = ups.iter().filter(|(_, u)| u.op.is_some()).collect();
    if live.is_empty() {
        return;
    }
    // a device whose sync managers do not fit the physical address space has no meaningful expectation
    let sane = |k: usize| !c.devs[k].unrepresentable() && c.devs[k].fits_ram();
    // put input patterns into the devices' input memory (description order of the input SMs)
    for &(s, _) in live.iter() {
        for &k in &members(c, *s) {
            if !sane(k) {
                continue;
            }
            let mut j = 0usize;
            for (_, start, len, _) in c.devs[k].dir_sms(4) {
                for b in 0..len as usize {
                    let a = start as usize + b;
                    if a < 65536 {
                        net.seg.devices[k].mem[a] = pat_in(k, j);
                    }
                    j += 1;
                }
            }
        }
    }
    let snapshot: Vec<Vec<u8>> = net.seg.devices.iter().map(|d| d.mem[RAM0..].to_vec()).collect();
    for &(s, up) in live.iter() {
        let g = up.op.as_ref().unwrap();
        for (i, &k) in members(c, *s).iter().enumerate() {
            if catch_unwind(AssertUnwindSafe(|| g.set_outputs(md, i, &|j| pat_out(k, j)))).is_err() {
                let (a, b) = g.io(md, i);
                rep.fail("c08/panic-after-config", &format!("group {s} is in OP, outputs_raw_mut() of device {k} panics: windows {a:?} / {b:?}, image of {} bytes", c.max_pdi[*s]), line);
                return;
            }
        }
    }
    for &(s, up) in live.iter() {
        let g = up.op.as_ref().unwrap();
        for _ in 0..2 {
            match catch_unwind(AssertUnwindSafe(|| run(net, g.tx_rx(md)))) {
                Ok(Ok(Ok(_))) => {}
                Ok(Ok(Err(e))) => {
                    rep.fail("c08/tx-rx-error", &format!("group {s}: tx_rx failed: {e:?}"), line);
                    return;
                }
                Ok(Err(st)) => {
                    rep.fail("c08/tx-rx-stuck", &format!("group {s}: tx_rx {st:?}"), line);
                    return;
                }
                Err(_) => {
                    let (st, rd, len) = g.layout();
                    rep.fail("c08/panic-after-config", &format!("group {s} is in OP, tx_rx panics: start {st:#x}, read_pdi_len {rd}, pdi_len {len}, image of {} bytes", c.max_pdi[*s]), line);
                    return;
                }
            }
        }
    }
    let in_live = |k: usize| live.iter().any(|(s, _)| *s == c.devs[k].slot);
    // FMMUs left enabled in devices of a group whose configuration failed, reaching into the
    // logical range of a group that runs: (device, fmmu, logical start, length)
    let mut leftovers: Vec<(usize, usize, u32, u16)> = Vec::new();
    for k in 0..c.devs.len() {
        if in_live(k) || !ups.iter().any(|(s, u)| *s == c.devs[k].slot && u.safe.is_err()) {
            continue;
        }
        for i in 0..16u8 {
            let f = net.seg.devices[k].fmmu(i);
            if f.enable && f.len > 0 && ranges.iter().any(|r| (f.logical_start as u64) < r.2 && r.1 < f.logical_start as u64 + f.len as u64) {
                leftovers.push((k, i as usize, f.logical_start, f.len));
            }
        }
    }
    // failures of a device that belongs to a known defect class are reported under that class
    let class = |k: usize, generic: &str| -> String {
        let d = &c.devs[k];
        if d.shared_fmmu_noncontiguous() {
            "c08/coe-multi-sm-shared-fmmu".to_string()
        } else if d.fmmu_index_beyond_count() {
            "c08/eeprom-fmmu-index-is-sm-index".to_string()
        } else if !leftovers.is_empty() {
            "c08/failed-group-keeps-fmmus".to_string()
        } else {
            generic.to_string()
        }
    };
    let why = |key: &str| -> String {
        match (key, leftovers.first()) {
            ("c08/failed-group-keeps-fmmus", Some(&(k, i, l, n))) => format!(" — FMMU {i} of device {k}, whose group's into_safe_op returned an error, is still enabled at logical {l:#x}+{n} inside the range of a running group"),
            _ => String::new(),
        }
    };
    for k in 0..c.devs.len() {
        let d = &c.devs[k];
        // expected memory: snapshot + own output pattern in the output SMs
        let mut want = snapshot[k].clone();
        if in_live(k) && sane(k) {
            let mut j = 0usize;
            for (_, start, len, _) in d.dir_sms(3) {
                for b in 0..len as usize {
                    let a = start as usize + b;
                    if (RAM0..65536).contains(&a) {
                        want[a - RAM0] = pat_out(k, j);
                    }
                    j += 1;
                }
            }
        }
        if !sane(k) {
            continue;
        }
        let got = &net.seg.devices[k].mem[RAM0..];
        if got != &want[..] {
            let first = (0..want.len()).find(|&a| got[a] != want[a]).unwrap();
            let in_out_sm = d.dir_sms(3).iter().any(|x| (x.1 as usize..x.1 as usize + x.2 as usize).contains(&(first + RAM0)));
            let (gen_key, what) = if in_out_sm {
                ("c08/outputs-not-delivered", format!("device {k}: output memory {:#06x} holds {:#04x}, the pattern written to its outputs says {:#04x}", first + RAM0, got[first], want[first]))
            } else {
                ("c08/stray-write", format!("device {k}: memory {:#06x} outside its output sync managers changed to {:#04x} during tx_rx", first + RAM0, got[first]))
            };
            let key = class(k, gen_key);
            rep.fail(&key, &format!("{what}{}", why(&key)), line);
        }
    }
    for &(s, up) in live.iter() {
        let g = up.op.as_ref().unwrap();
        let (_, rd, len) = g.layout();
        let _ = (rd, len);
        for (i, &k) in members(c, *s).iter().enumerate() {
            if !sane(k) {
                continue;
            }
            let d = &c.devs[k];
            let want_in: Vec<u8> = (0..d.dir_len(4) as usize).map(|j| pat_in(k, j)).collect();
            let got_in = match catch_unwind(AssertUnwindSafe(|| (g.inputs(md, i), g.outputs(md, i)))) {
                Ok((x, _)) => x,
                Err(_) => {
                    let (a, b) = g.io(md, i);
                    rep.fail("c08/panic-after-config", &format!("group {s} is in OP, inputs_raw()/outputs_raw() of device {k} panics: windows {a:?} / {b:?}, image of {} bytes", c.max_pdi[*s]), line);
                    return;
                }
            };
            if got_in != want_in {
                let pos = (0..want_in.len().min(got_in.len())).find(|&j| got_in[j] != want_in[j]);
                let key = class(k, "c08/inputs-misread");
                if std::env::var("C08_DEBUG").is_ok() {
                    let p = pos.unwrap_or(0);
                    eprintln!("dev {k} pos {p} got {:02x?} want {:02x?} io {:?} layout {:?}", &got_in[p..(p + 16).min(got_in.len())], &want_in[p..(p + 16).min(want_in.len())], g.io(md, i), g.layout());
                }
                rep.fail(&key, &format!("device {k}: input window shows {} bytes, differs from its input memory at byte {pos:?}{}", got_in.len(), why(&key)), line);
            }
            let want_out: Vec<u8> = (0..g.outputs(md, i).len()).map(|j| pat_out(k, j)).collect();
            if g.outputs(md, i) != want_out {
                rep.fail(&class(k, "c08/output-image-clobbered"), &format!("device {k}: its output window in the image changed during tx_rx"), line);
            }
            let _ = g.io(md, i);
        }
        let _ = g.addrs(md);
    }
}

// ------------------------------------------------------------------------------------ generators

struct Alloc {
    cur: usize,
}
impl Alloc {
    fn take(&mut self, len: usize, gap: usize) -> u16 {
        let s = self.cur;
        self.cur += len + gap;
        // beyond the physical address space: the simulator ignores such bytes, `fits_ram` is false
        s.min(0xffff) as u16
    }
}

struct Shape {
    kind: u8, // 0 no mailbox, 1 mailbox without CoE, 2 CoE
    n_out: usize,
    n_in: usize,
    contiguous: bool,
    big: bool,
    /// 0: none; 1: one sync manager with a bit sum around the u16 limits (65528 +- 16, 65536 +- 16 bits);
    /// 2: around the largest length a sync manager register holds (65535 bytes = 524280 bits, +- 16 bits);
    /// oversampling factors up to 1024
    huge: u8,
}

/// PDOs (entries of at most 64 bit, at most 255 per PDO) and oversampling entries whose bit lengths
/// times the factors add up to exactly `target` bits on sync manager `sm`.
fn huge_pdos(rng: &mut Rng, sm: u8, base_idx: u16, target: u64, os: u16) -> (Vec<PdoDesc>, Vec<(u16, u16)>) {
    let os = os.max(1) as u64;
    let mut per = target / os;
    let rem = target % os;
    let mut chunks: Vec<(u64, u16)> = Vec::new();
    while per > 0 {
        let c = per.min(255 * 64);
        chunks.push((c, os as u16));
        per -= c;
    }
    if rem > 0 {
        chunks.push((rem, 1));
    }
    let mut pdos = Vec::new();
    let mut oss = Vec::new();
    for (j, (bits, o)) in chunks.into_iter().enumerate() {
        let mut entries: Vec<PdoEntryDesc> = (0..bits / 64).map(|e| PdoEntryDesc { index: 0x6000 + j as u16, sub: (e + 1) as u8, bits: 64 }).collect();
        if bits % 64 != 0 {
            entries.push(PdoEntryDesc { index: 0x6000 + j as u16, sub: (entries.len() + 1) as u8, bits: (bits % 64) as u8 });
        }
        if rng.chance(1, 2) {
            entries.reverse();
        }
        let index = base_idx + 0x40 + j as u16;
        pdos.push(PdoDesc { index, sm, entries });
        if o != 1 || rng.chance(1, 8) {
            oss.push((index, o));
        }
    }
    (pdos, oss)
}

fn gen_dev(rng: &mut Rng, slot: usize, sh: &Shape) -> Dev {
    let mut sms: Vec<SmDesc> = Vec::new();
    let mbx = match sh.kind {
        0 => (0, 0, 0),
        1 => (*rng.pick(&[32u16, 64]), *rng.pick(&[32u16, 64]), *rng.pick(&[0x08u16, 0x02, 0x0a])),
        _ => (*rng.pick(&[48u16, 64, 128]), *rng.pick(&[48u16, 64, 128]), *rng.pick(&[0x04u16, 0x0c, 0x06])),
    };
    let mut al = Alloc { cur: RAM0 };
    if sh.kind != 0 {
        let a = al.take(mbx.0 as usize, 0);
        sms.push(SmDesc { start: a, len: mbx.0, control: 0x26, enable: 1, usage: 1 });
        let a = al.take(mbx.1 as usize, rng.below(32) as usize);
        sms.push(SmDesc { start: a, len: mbx.1, control: 0x22, enable: 1, usage: 2 });
    }
    // directions of the process data sync managers, interleaved at random
    let mut dirs: Vec<u8> = std::iter::repeat(3u8).take(sh.n_out).chain(std::iter::repeat(4u8).take(sh.n_in)).collect();
    for i in (1..dirs.len()).rev() {
        let j = rng.below(i as u64 + 1) as usize;
        dirs.swap(i, j);
    }
    if rng.chance(1, 2) {
        dirs.sort();
    }
    let base = sms.len();
    for &t in &dirs {
        let flags = (rng.below(8) as u8) << 4;
        let control = if t == 3 { 0x04 | flags } else { flags };
        // mostly the declared type; sometimes only derivable from the control byte (EEPROM path only)
        let usage = if sh.kind != 2 && rng.chance(1, 6) { 0 } else { t };
        let enable = *rng.pick(&[1u8, 1, 1, 1, 3, 9, 0]);
        sms.push(SmDesc { start: 0, len: 0, control, enable, usage });
    }
    // PDOs
    let mut tx = Vec::new();
    let mut rx = Vec::new();
    for (t, list, base_idx) in [(3u8, &mut rx, 0x1600u16), (4u8, &mut tx, 0x1a00u16)] {
        let mine: Vec<usize> = (base..sms.len()).filter(|&i| Dev::usage_type(&sms[i]) == t).collect();
        let n = if mine.is_empty() { if rng.chance(1, 8) { 1 } else { 0 } } else { rng.range(0, 8).min(rng.range(0, 8) + 1) as usize };
        for j in 0..n {
            let sm = if mine.is_empty() || rng.chance(1, 30) { rng.below(10) as u8 } else { *rng.pick(&mine) as u8 };
            let ne = if sh.big { rng.range(1, 60) } else if rng.chance(1, 20) { 0 } else { rng.range(1, 6) } as usize;
            let entries = (0..ne)
                .map(|e| PdoEntryDesc {
                    index: if t == 3 { 0x7000 } else { 0x6000 } + j as u16 * 0x10,
                    sub: (e + 1) as u8,
                    bits: if sh.big { rng.range(1, 255) as u8 } else { *rng.pick(&[1u8, 1, 2, 4, 8, 8, 16, 16, 32, 64, 3, 7, 12, 24, 48, 63]) },
                })
                .collect();
            list.push(PdoDesc { index: base_idx + j as u16, sm, entries });
        }
    }
    // oversampling
    let mut os = Vec::new();
    if rng.chance(1, 4) {
        for _ in 0..rng.range(1, 2) {
            let all: Vec<u16> = tx.iter().chain(rx.iter()).map(|p| p.index).collect();
            let idx = if all.is_empty() || rng.chance(1, 8) { 0x1a7f } else { *rng.pick(&all) };
            let mul = if sh.big { *rng.pick(&[2u16, 8, 100, 1000, 65535]) } else { *rng.pick(&[0u16, 1, 2, 2, 3, 8, 16]) };
            os.push((idx, mul));
        }
    }
    // one sync manager at the limits of the bit / byte length arithmetic
    if sh.huge != 0 {
        let pd: Vec<usize> = (base..sms.len()).collect();
        if !pd.is_empty() {
            let i = *rng.pick(&pd);
            let t = Dev::usage_type(&sms[i]);
            let delta = rng.below(33);
            let target = match sh.huge {
                1 => *rng.pick(&[65528u64, 65528, 65535, 65536]) - 16 + delta,
                _ => 524280 - 16 + delta,
            };
            // byte-limit targets need a factor (the EEPROM of the simulated device holds at most ~20 such PDOs);
            // CoE devices read every mapping entry with an SDO upload: keep their PDOs short
            let any = rng.range(2, 1024) as u16;
            let factor = match (sh.huge, sh.kind) {
                (1, 2) => rng.range(8, 1024) as u16,
                (1, _) => *rng.pick(&[1u16, 1, 2, 3, 512, any]),
                (_, 2) => rng.range(256, 1024) as u16,
                _ => rng.range(33, 1024) as u16,
            };
            let (list, base_idx) = if t == 3 { (&mut rx, 0x1600u16) } else { (&mut tx, 0x1a00u16) };
            list.retain(|p| p.sm as usize != i);
            let (pdos, oss) = huge_pdos(rng, i as u8, base_idx, target, factor);
            list.extend(pdos);
            // first match wins in `oversampling_config`: ours go in front
            os.splice(0..0, oss);
        }
    }
    // FMMU usage list
    let fmmus: Vec<u8> = match sh.kind {
        2 => match rng.below(10) {
            0 => vec![2, 1, 3],
            1 => vec![0, 1, 2, 3],
            2 => vec![255, 2, 1],
            3 => vec![1, 1, 2, 2],
            4 if rng.chance(1, 2) => vec![1, 3],
            5 if rng.chance(1, 2) => vec![3, 2],
            _ => vec![1, 2, 3],
        },
        _ => match rng.below(4) {
            0 => vec![],
            1 => vec![2, 1],
            _ => vec![1, 2],
        },
    };
    let fmmu_ex: Vec<u8> = if rng.chance(1, 4) { (0..rng.range(1, 3)).map(|_| rng.below(sms.len() as u64 + 1) as u8).collect() } else { vec![] };
    let mut d = Dev { slot, mbx, sms, fmmus, fmmu_ex, tx, rx, os, fmmu_count: 8, };
    // physical layout: per direction in SM order, contiguous or with gaps
    for t in [3u8, 4] {
        let mine = d.dir_sms(t);
        for (i, _, len, _) in mine {
            let gap = if sh.contiguous { 0 } else { *rng.pick(&[0usize, 1, 2, 8, 16, 64]) };
            let len = (len as usize).min(65535);
            d.sms[i].start = al.take(len, gap);
            d.sms[i].len = len as u16;
        }
        al.cur += rng.below(16) as usize;
    }
    if al.cur > 0xf000 {
        // does not fit the process RAM: shrink by dropping PDOs
        d.tx.truncate(1);
        d.rx.truncate(1);
        let mut al = Alloc { cur: RAM0 + d.mbx.0 as usize + d.mbx.1 as usize + 64 };
        for t in [3u8, 4] {
            for (i, _, len, _) in d.dir_sms(t) {
                d.sms[i].start = al.take((len as usize).min(65535), 4);
            }
        }
    }
    d.fmmu_count = if rng.chance(1, 25) { rng.range(1, 4) as u8 } else { *rng.pick(&[8u8, 8, 16, 10]) };
    if d.coe() {
        // a CoE device is asked for the FMMU whose number is the position in its own usage list:
        // a description listing more FMMUs than the controller has would be the device's fault
        d.fmmu_count = d.fmmu_count.max(d.fmmus.len() as u8);
    }
    d
}

fn pick_sizes(rng: &mut Rng, devs: &[Dev], tight: bool) -> [usize; 3] {
    let mut out = [SIZES[2]; 3];
    for s in 0..3 {
        let need: u64 = devs.iter().filter(|d| d.slot == s).map(|d| d.dir_len(3) + d.dir_len(4)).sum();
        let fit = SIZES.iter().copied().find(|&z| z as u64 >= need).unwrap_or(SIZES[5]);
        if tight && need > 1 && rng.chance(2, 3) {
            // the largest capacity that is too small: the layout (or one direction alone) exceeds it
            out[s] = SIZES.iter().copied().filter(|&z| (z as u64) < need).last().unwrap_or(SIZES[0]);
            continue;
        }
        out[s] = match rng.below(10) {
            0 => *rng.pick(&SIZES),
            1 => SIZES[SIZES.iter().position(|&z| z == fit).unwrap().saturating_sub(1)],
            2 | 3 => SIZES[(SIZES.iter().position(|&z| z == fit).unwrap() + 1).min(5)],
            _ => fit,
        };
    }
    out
}

fn gen_case(rng: &mut Rng, n: usize) -> Case {
    let ngroups = rng.range(1, 3) as usize;
    let mut devs = Vec::new();
    // per group: 0 mixed, 1 inputs only, 2 outputs only (capacity checks that look at one direction)
    let flavour: Vec<u8> = (0..3).map(|_| *rng.pick(&[0u8, 0, 0, 0, 0, 1, 1, 2])).collect();
    let tight = rng.chance(1, 4) || flavour.iter().take(ngroups).any(|&f| f != 0) && rng.chance(1, 2);
    for _ in 0..n {
        let slot = rng.below(ngroups as u64) as usize;
        let kind = *rng.pick(&[0u8, 0, 1, 2, 2, 2]);
        let maxsm = if kind == 0 { 8 } else { 6 };
        let mut n_out = rng.range(0, 3).min(rng.range(0, 3) + 1) as usize;
        let mut n_in = (rng.range(0, 3).min(rng.range(0, 3) + 1) as usize).min(maxsm - n_out);
        let huge = if rng.chance(1, 25) { *rng.pick(&[1u8, 1, 2, 2]) } else { 0 };
        if huge != 0 && n_out + n_in == 0 {
            n_in = 1;
        }
        match flavour[slot] {
            1 => {
                n_out = 0;
                n_in = n_in.max(1);
            }
            2 => {
                n_in = 0;
                n_out = n_out.max(1);
            }
            _ => {}
        }
        let sh = Shape { kind, n_out, n_in, contiguous: rng.chance(2, 3), big: rng.chance(1, 60), huge };
        devs.push(gen_dev(rng, slot, &sh));
    }
    let max_pdi = pick_sizes(rng, &devs, tight);
    Case { max_pdi, devs }
}

fn sm(start: u16, control: u8, usage: u8) -> SmDesc {
    SmDesc { start, len: 0, control, enable: 1, usage }
}
fn pdo(index: u16, sm: u8, bits: &[u8]) -> PdoDesc {
    PdoDesc { index, sm, entries: bits.iter().enumerate().map(|(k, &b)| PdoEntryDesc { index: 0x6000, sub: (k + 1) as u8, bits: b }).collect() }
}

/// Boundary cases and the witnesses of the known findings (run first, every tier).
fn corpus() -> Vec<Case> {
    let plain_out = |slot| Dev { slot, mbx: (0, 0, 0), sms: vec![sm(0x0f00, 0x44, 3)], fmmus: vec![1], fmmu_ex: vec![], tx: vec![], rx: vec![pdo(0x1600, 0, &[1, 1, 1, 1])], os: vec![], fmmu_count: 8 };
    let plain_in = |slot| Dev { slot, mbx: (0, 0, 0), sms: vec![sm(0x1000, 0x00, 4)], fmmus: vec![2], fmmu_ex: vec![], tx: vec![pdo(0x1a00, 0, &[8, 8, 1])], rx: vec![], os: vec![], fmmu_count: 8 };
    let coupler = |slot| Dev { slot, mbx: (0, 0, 0), sms: vec![], fmmus: vec![], fmmu_ex: vec![], tx: vec![], rx: vec![], os: vec![], fmmu_count: 8 };
    let coe = |slot, out2: u16, in2: u16| Dev {
        slot,
        mbx: (64, 64, 4),
        sms: vec![sm(0x1000, 0x26, 1), sm(0x1080, 0x22, 2), sm(0x1100, 0x64, 3), sm(out2, 0x64, 3), sm(0x1400, 0x20, 4), sm(in2, 0x20, 4)],
        fmmus: vec![1, 2, 3],
        fmmu_ex: vec![],
        tx: vec![pdo(0x1a00, 4, &[16, 8]), pdo(0x1a01, 5, &[32])],
        rx: vec![pdo(0x1600, 2, &[8, 8]), pdo(0x1601, 3, &[16, 8])],
        os: vec![],
        fmmu_count: 8,
    };
    let mut v = vec![
        Case { max_pdi: [40, 40, 40], devs: vec![plain_out(0)] },
        Case { max_pdi: [40, 40, 40], devs: vec![coupler(0), plain_in(0), plain_out(0), plain_in(0)] },
        // three groups, interleaved membership
        Case { max_pdi: [6, 40, 300], devs: vec![plain_in(1), plain_out(0), plain_in(2), plain_out(1), plain_in(0), coupler(2)] },
        // exactly fits / one byte too long
        Case { max_pdi: [6, 40, 40], devs: vec![plain_in(0), plain_in(0), plain_out(0), plain_out(0)] },
        Case { max_pdi: [1, 40, 40], devs: vec![plain_in(0)] },
        Case { max_pdi: [1, 6, 40], devs: vec![plain_out(0), plain_in(1), plain_in(1), plain_in(1), plain_out(2)] },
        // does not fit: inputs only (3 x 3 bytes > 6), outputs only (7 x 1 byte > 6), mixed where the inputs alone
    // already exceed the capacity (9 + 1 > 6), mixed where only the sum does (6 + 1 > 6)
    Case { max_pdi: [6, 40, 40], devs: vec![plain_in(0), plain_in(0), plain_in(0)] },
    Case { max_pdi: [6, 40, 40], devs: vec![plain_out(0), plain_out(0), plain_out(0), plain_out(0), plain_out(0), plain_out(0), plain_out(0)] },
    Case { max_pdi: [6, 40, 40], devs: vec![plain_in(0), plain_out(0), plain_in(0), plain_in(0)] },
    Case { max_pdi: [6, 40, 40], devs: vec![plain_in(0), plain_in(0), plain_out(0)] },
    // inputs-only group that does not fit, followed (in address order) by a group that does
    Case { max_pdi: [1, 6, 40], devs: vec![plain_out(1), plain_in(1), plain_in(0), plain_in(0)] },
    // CoE, two SMs per direction, physically contiguous: 0x1100+2 = 0x1102, 0x1400+3 = 0x1403
        Case { max_pdi: [40, 40, 40], devs: vec![coe(0, 0x1102, 0x1403)] },
        // KNOWN FINDING c08/coe-multi-sm-shared-fmmu: same device, second SM of each direction elsewhere
        Case { max_pdi: [40, 40, 40], devs: vec![coe(0, 0x1200, 0x1500)] },
        Case { max_pdi: [40, 40, 40], devs: vec![plain_in(0), coe(0, 0x1200, 0x1403), plain_out(0)] },
    ];
    // KNOWN FINDING c08/failed-group-keeps-fmmus: group 0 (address 0, MAX_PDI 1) needs 2 output bytes ->
    // PdiTooLong, but both FMMUs stay programmed; group 1 (address 1) then shares logical byte 1 with it
    v.push(Case { max_pdi: [1, 40, 40], devs: vec![plain_out(1), plain_out(0), plain_out(0)] });
    v.push(Case { max_pdi: [1, 40, 40], devs: vec![plain_in(1), plain_in(0)] });
    // REPAIRED c08/pdo-bit-length-u16-overflow (witnesses of the former known finding; they must now be configured
    // with their true lengths): 8 PDOs x 129 entries x 64 bit = 66048 bits = 8256 bytes on one SM;
    // 2 x 64 bit x oversampling 512 = 65536 bits = 8192 bytes
    let mut big = plain_in(0);
    big.tx = (0..8).map(|j| pdo(0x1a00 + j, 0, &[64u8; 129])).collect();
    v.push(Case { max_pdi: [65535, 40, 40], devs: vec![big.clone()] });
    let mut big2 = plain_in(0);
    big2.tx = vec![pdo(0x1a00, 0, &[64, 64])];
    big2.os = vec![(0x1a00, 512)];
    v.push(Case { max_pdi: [65535, 40, 40], devs: vec![plain_out(0), big2.clone()] });
    // the same two where the true length does not fit the declared capacity: PdiTooLong with the true length
    v.push(Case { max_pdi: [4000, 40, 40], devs: vec![big.clone()] });
    v.push(Case { max_pdi: [4000, 40, 40], devs: vec![plain_out(0), big2] });
    // the witness of Props/C08 bit_length_overflow_fixed: 5 PDOs x 255 entries x 64 bit = 81600 bits = 10200 bytes,
    // as inputs and (second device) as outputs
    let mut big5 = plain_in(0);
    big5.tx = (0..5).map(|j| pdo(0x1a00 + j, 0, &[64u8; 255])).collect();
    let mut big5o = plain_out(0);
    big5o.sms = vec![sm(0x4000, 0x44, 3)];
    big5o.rx = (0..5).map(|j| pdo(0x1600 + j, 0, &[64u8; 255])).collect();
    v.push(Case { max_pdi: [65535, 40, 40], devs: vec![big5, big5o] });
    // the limits of the u16 arithmetic of old: 65528 bits (8191 bytes: the last sum that fitted), 65529 (+7 overflowed),
    // 65535, 65536 (the sum itself overflowed)
    for extra in [&[][..], &[1u8][..], &[7u8][..], &[8u8][..]] {
        let mut d = plain_in(0);
        d.tx = (0..4).map(|j| pdo(0x1a00 + j, 0, &[64u8; 255])).collect();
        d.tx.push(pdo(0x1a04, 0, &[62u8; 4])); // 65280 + 248 = 65528
        if !extra.is_empty() {
            d.tx.push(pdo(0x1a05, 0, extra));
        }
        v.push(Case { max_pdi: [65535, 40, 40], devs: vec![d, plain_out(0)] });
    }
    // the limit of the length registers: 514 bit x oversampling 1020 = 524280 bits = 65535 bytes is programmed
    // (group capacity 65535: fits exactly), one bit more is Error::IntegerTypeConversion
    let mut lim = plain_in(0);
    lim.tx = vec![pdo(0x1a00, 0, &[64, 64, 64, 64, 64, 64, 64, 64, 2])];
    lim.os = vec![(0x1a00, 1020)];
    v.push(Case { max_pdi: [65535, 40, 40], devs: vec![lim.clone()] });
    let mut lim1 = lim.clone();
    lim1.tx.push(pdo(0x1a01, 0, &[1]));
    v.push(Case { max_pdi: [65535, 40, 40], devs: vec![plain_out(0), lim1] });
    // 9 PDOs of 255 x 255 bit (the largest an EEPROM describes) = 73154 bytes: IntegerTypeConversion; 8 of them = 65025 bytes
    let mut huge9 = plain_in(0);
    huge9.tx = (0..9).map(|j| pdo(0x1a00 + j, 0, &[255u8; 255])).collect();
    v.push(Case { max_pdi: [65535, 40, 40], devs: vec![huge9.clone()] });
    huge9.tx.truncate(8);
    v.push(Case { max_pdi: [65535, 40, 40], devs: vec![huge9] });
    // oversampling 65535 on a 255 x 255 bit PDO (the largest product the types allow), 20 of them on one SM
    // (64 such PDOs do not fit one SII category: 64 x 2048 bytes > 65535 words)
    let mut prod = plain_in(0);
    prod.tx = (0..20).map(|j| pdo(0x1a00 + j, 0, &[255u8; 255])).collect();
    prod.os = (0..20).map(|j| (0x1a00 + j, 65535)).collect();
    v.push(Case { max_pdi: [65535, 40, 40], devs: vec![prod] });
    // CoE: two output sync managers of 40000 bytes each share ONE FMMU whose length would be 80000:
    // IntegerTypeConversion from the checked addition; a single one is programmed
    let coe_big = |n: usize| Dev {
        slot: 0,
        mbx: (64, 64, 4),
        sms: vec![sm(0x1000, 0x26, 1), sm(0x1080, 0x22, 2), sm(0x1100, 0x64, 3), sm(0xad40, 0x64, 3)],
        fmmus: vec![1, 2, 3],
        fmmu_ex: vec![],
        tx: vec![],
        rx: (0..n).map(|j| pdo(0x1600 + j as u16, 2 + j as u8, &[250])).collect(),
        os: vec![(0x1600, 1280), (0x1601, 1280)],
        fmmu_count: 8,
    };
    v.push(Case { max_pdi: [65535, 40, 40], devs: vec![coe_big(2)] });
    v.push(Case { max_pdi: [65535, 40, 40], devs: vec![coe_big(1)] });
    // KNOWN FINDING c08/eeprom-fmmu-index-is-sm-index: mailbox (FoE only) device, inputs on SM3, three FMMUs
    let foe = Dev {
        slot: 0,
        mbx: (64, 64, 8),
        sms: vec![sm(0x1000, 0x26, 1), sm(0x1080, 0x22, 2), sm(0x1100, 0x64, 3), sm(0x1400, 0x20, 4)],
        fmmus: vec![1, 2, 3],
        fmmu_ex: vec![],
        tx: vec![pdo(0x1a00, 3, &[16])],
        rx: vec![pdo(0x1600, 2, &[16])],
        os: vec![],
        fmmu_count: 3,
    };
    v.push(Case { max_pdi: [40, 40, 40], devs: vec![foe.clone()] });
    let mut foe8 = foe.clone();
    foe8.fmmu_count = 8;
    foe8.fmmu_ex = vec![2, 3];
    v.push(Case { max_pdi: [40, 40, 40], devs: vec![foe8] });
    // CoE without the needed FMMU usage; more than 8 sync managers
    let mut nof = coe(0, 0x1102, 0x1403);
    nof.fmmus = vec![1, 3];
    v.push(Case { max_pdi: [40, 40, 40], devs: vec![nof] });
    let mut many = plain_in(0);
    many.sms = (0..9).map(|i| sm(0x1000 + 0x40 * i, 0x00, 4)).collect();
    v.push(Case { max_pdi: [40, 40, 40], devs: vec![many] });
    // oversampling, zero-length SMs, disabled SM, derived usage
    let mut ov = plain_in(0);
    ov.tx = vec![pdo(0x1a00, 0, &[16]), pdo(0x1a01, 0, &[3])];
    ov.os = vec![(0x1a00, 8), (0x1a00, 2)];
    ov.sms.push(SmDesc { start: 0x1100, len: 0, control: 0x04, enable: 0, usage: 0 });
    ov.rx = vec![pdo(0x1600, 1, &[7, 2])];
    v.push(Case { max_pdi: [40, 40, 40], devs: vec![ov, coupler(0)] });
    v
}

fn note_case(c: &Case, out: &str, rep: &mut Report) {
    rep.hit(&format!("devices={}", c.devs.len()));
    rep.hit(&format!("groups={}", order(c).len()));
    for d in &c.devs {
        rep.hit(if d.coe() { "dev:coe" } else if d.has_mailbox() { "dev:mailbox-no-coe" } else { "dev:no-mailbox" });
        rep.hit(&format!("dev:out-sms={}", d.dir_sms(3).len()));
        rep.hit(&format!("dev:in-sms={}", d.dir_sms(4).len()));
        rep.hit(&format!("dev:rx-pdos={}", d.rx.len()));
        rep.hit(&format!("dev:tx-pdos={}", d.tx.len()));
        if !d.os.is_empty() {
            rep.hit("dev:oversampling");
        }
        if !d.fmmu_ex.is_empty() {
            rep.hit("dev:fmmu_ex");
        }
        if d.shared_fmmu_noncontiguous() {
            rep.hit("dev:class-coe-shared-fmmu-noncontiguous");
        }
        if d.coe() && [3u8, 4].iter().any(|&t| d.dir_sms(t).iter().filter(|x| x.2 > 0).count() >= 2) && !d.shared_fmmu_noncontiguous() {
            rep.hit("dev:coe-shared-fmmu-contiguous");
        }
        if d.overflows() {
            rep.hit("dev:class-u16-overflow");
        }
        if d.unrepresentable() {
            rep.hit("dev:class-length-beyond-65535-bytes");
        }
        for t in [3u8, 4] {
            for x in d.dir_sms(t) {
                let bits = d.sm_bits(x.0, t).0;
                if (65528 - 16..=65536 + 16).contains(&bits) {
                    rep.hit("sm:bits-around-u16-limit");
                }
                if (524280 - 16..=524280 + 16).contains(&bits) {
                    rep.hit("sm:bits-around-65535-bytes");
                }
            }
        }
        if d.os.iter().any(|o| o.1 >= 256) {
            rep.hit("dev:oversampling>=256");
        }
        if d.fmmu_index_beyond_count() {
            rep.hit("dev:class-fmmu-index-beyond-count");
        }
    }
    for s in order(c) {
        let i: u64 = members(c, s).iter().map(|&k| c.devs[k].dir_len(4)).sum();
        let o: u64 = members(c, s).iter().map(|&k| c.devs[k].dir_len(3)).sum();
        let cap = c.max_pdi[s] as u64;
        let shape = match (i > 0, o > 0) {
            (true, false) => "inputs-only",
            (false, true) => "outputs-only",
            (true, true) => "mixed",
            _ => "empty",
        };
        if i + o > cap {
            rep.hit(&format!("grp:does-not-fit:{shape}{}", if i > cap && o > 0 { ":inputs-alone-exceed" } else { "" }));
        } else if i + o == cap {
            rep.hit(&format!("grp:exact-fit:{shape}"));
        } else {
            rep.hit(&format!("grp:fits:{shape}"));
        }
    }
    for g in out.split('|').next().unwrap_or("").split(';') {
        let r = g.splitn(3, ':').nth(2).unwrap_or(g);
        let r = r.split('.').take(2).collect::<Vec<_>>().join(".");
        rep.hit(&format!("group:{}", if r.starts_with("ok") { "ok".to_string() } else { r }));
    }
    if out.contains(":ok.") && c.devs.len() >= 2 && c.devs.iter().filter(|d| d.dir_len(3) + d.dir_len(4) > 0).count() >= 2 {
        rep.nontrivial.insert(c.line());
    }
}

fn main() {
    let args = ecverif::parse_args();
    let mut rep = Report::default();
    let mut cases: Vec<Case> = Vec::new();
    if let Some(lines) = ecverif::replay_cases(&args) {
        for l in lines {
            match Case::parse(&l) {
                Some(c) => cases.push(c),
                None => rep.notes.push(format!("unparsable replay case: {l}")),
            }
        }
    } else {
        cases.extend(corpus());
        let mut rng = Rng::new(args.seed);
        let rounds = if args.tier == "thorough" { 6000usize } else { 400usize };
        'outer: for round in 0..rounds {
            for n in 1..=16usize {
                // small networks every round, large ones less often
                if n > 4 && (round + n) % 4 != 0 {
                    continue;
                }
                cases.push(gen_case(&mut rng, n));
                if cases.len() > 20000 {
                    break 'outer;
                }
            }
        }
        rep.notes.push(format!("mode={} seed={} generated={}", mode(), args.seed, cases.len()));
    }
    let t0 = std::time::Instant::now();
    let budget = if args.tier == "thorough" { 480 } else { 40 };
    let mut skipped = 0usize;
    for (i, c) in cases.iter().enumerate() {
        if args.replay.is_none() && i >= corpus().len() && t0.elapsed().as_secs() > budget {
            skipped += 1;
            continue;
        }
        // the line parser must round-trip (replay files rely on it)
        debug_assert_eq!(Case::parse(&c.line()).as_ref().map(|x| x.line()), Some(c.line()));
        let out = match catch_unwind(AssertUnwindSafe(|| run_case(c, &mut rep))) {
            Ok(o) => o,
            Err(_) => {
                rep.fail("c08/panic-after-config", "the case panicked outside the guarded calls (harness or library)", &c.line());
                "harness-panic".to_string()
            }
        };
        note_case(c, &out, &mut rep);
        rep.case(c.line(), out);
    }
    if skipped > 0 {
        rep.notes.push(format!("time budget reached: {skipped} generated cases not run"));
    }
    rep.write(&args.out, "c08");
}
