/-
  Helper lemmas for C17 (Dc model): ports, the i64 offset, loop invariants (fields preserved,
  monotone delays, which panics are reachable).
-/
import EcModel.Dc
namespace Ec.Dc
open Ec

/-! ### ports -/

def Ports.get (p : Ports) (i : Nat) : Port :=
  match i with
  | 0 => p.a0 | 1 => p.a1 | 2 => p.a2 | _ => p.a3

theorem mem_indexed (p : Ports) (i : Nat) (q : Port) :
    (i, q) ∈ p.indexed ↔ i < 4 ∧ q = p.get i := by
  simp only [Ports.indexed, List.mem_cons, Prod.mk.injEq, List.mem_nil_iff, or_false]
  constructor
  · rintro (⟨rfl, rfl⟩ | ⟨rfl, rfl⟩ | ⟨rfl, rfl⟩ | ⟨rfl, rfl⟩) <;> simp [Ports.get]
  · rintro ⟨h, rfl⟩
    have : i = 0 ∨ i = 1 ∨ i = 2 ∨ i = 3 := by omega
    rcases this with rfl | rfl | rfl | rfl <;> simp [Ports.get]

theorem mem_activePorts (p : Ports) (i : Nat) (q : Port) :
    (i, q) ∈ p.activePorts ↔ i < 4 ∧ q = p.get i ∧ q.active = true := by
  simp [Ports.activePorts, List.mem_filter, mem_indexed, and_assoc]

theorem openPorts_le (p : Ports) : p.openPorts ≤ 4 := by
  unfold Ports.openPorts Ports.activePorts
  exact Nat.le_trans (List.length_filter_le _ _) (by simp [Ports.indexed])

theorem topology_ok (p : Ports) (h : 1 ≤ p.openPorts) : ∃ t, p.topology = .ok t := by
  have h4 := openPorts_le p
  unfold Ports.topology
  have : p.openPorts = 1 ∨ p.openPorts = 2 ∨ p.openPorts = 3 ∨ p.openPorts = 4 := by omega
  rcases this with e | e | e | e <;> rw [e] <;> exact ⟨_, rfl⟩

theorem topology_not_err (p : Ports) (e : Err) : p.topology ≠ .err e := by
  unfold Ports.topology; split <;> simp

theorem minByTime_some {l : List (Nat × Port)} (h : l ≠ []) : ∃ e, minByTime l = some e ∧ e ∈ l := by
  induction l with
  | nil => exact absurd rfl h
  | cons x xs ih =>
    unfold minByTime
    cases hm : minByTime xs with
    | none => exact ⟨x, rfl, List.mem_cons_self ..⟩
    | some y =>
      have : xs ≠ [] := by intro e; subst e; simp [minByTime] at hm
      rcases ih this with ⟨e, he, hmem⟩
      rw [hm] at he; cases he
      by_cases c : y.2.time < x.2.time
      · exact ⟨y, by simp [c], List.mem_cons_of_mem _ hmem⟩
      · exact ⟨x, by simp [c], List.mem_cons_self ..⟩

theorem activePorts_ne_nil (p : Ports) (h : 1 ≤ p.openPorts) : p.activePorts ≠ [] := by
  intro e; unfold Ports.openPorts at h; rw [e] at h; simp at h

theorem entryPort_ok (p : Ports) (h : 1 ≤ p.openPorts) :
    ∃ e, p.entryPort = .ok e ∧ e ∈ p.activePorts := by
  rcases minByTime_some (activePorts_ne_nil p h) with ⟨e, he, hm⟩
  exact ⟨e, by simp [Ports.entryPort, he], hm⟩

theorem cycleSkipTake_subset {α : Type} (l : List α) (s n : Nat) : ∀ x ∈ cycleSkipTake l s n, x ∈ l := by
  intro x hx
  unfold cycleSkipTake at hx
  split at hx
  · simp at hx
  · rcases List.mem_filterMap.1 hx with ⟨j, _, hj⟩
    exact List.mem_of_getElem? hj

theorem get_setDownstream (p : Ports) (i j : Nat) (v : Option Nat) (hi : i < 4) (hj : j < 4) :
    (p.setDownstream i v).get j = if j = i then { p.get i with downstream := v } else p.get j := by
  have h1 : i = 0 ∨ i = 1 ∨ i = 2 ∨ i = 3 := by omega
  have h2 : j = 0 ∨ j = 1 ∨ j = 2 ∨ j = 3 := by omega
  rcases h1 with rfl | rfl | rfl | rfl <;> rcases h2 with rfl | rfl | rfl | rfl <;>
    simp [Ports.setDownstream, Ports.get]

theorem get_setDownstream_active (p : Ports) (i j : Nat) (v : Option Nat) (hi : i < 4) (hj : j < 4) :
    ((p.setDownstream i v).get j).active = (p.get j).active ∧ ((p.setDownstream i v).get j).time = (p.get j).time := by
  rw [get_setDownstream p i j v hi hj]
  by_cases h : j = i <;> simp [h]


theorem openPorts_setDownstream (p : Ports) (i : Nat) (v : Option Nat) :
    (p.setDownstream i v).openPorts = p.openPorts := by
  rcases p with ⟨⟨a0,t0,d0⟩,⟨a1,t1,d1⟩,⟨a2,t2,d2⟩,⟨a3,t3,d3⟩⟩
  unfold Ports.setDownstream
  split <;> cases a0 <;> cases a1 <;> cases a2 <;> cases a3 <;>
    simp [Ports.openPorts, Ports.activePorts, Ports.indexed]

/-- All four receive times are `u32` values. -/
def TimesOk (p : Ports) : Prop :=
  p.a0.time < U32 ∧ p.a1.time < U32 ∧ p.a2.time < U32 ∧ p.a3.time < U32

theorem timesOk_setDownstream (p : Ports) (i : Nat) (v : Option Nat) (h : TimesOk p) :
    TimesOk (p.setDownstream i v) := by
  unfold Ports.setDownstream
  split <;> exact h

theorem nextAssignable_active (p : Ports) (e i : Nat) (h : p.nextAssignable e = some i) :
    i < 4 ∧ (p.get i).active = true := by
  unfold Ports.nextAssignable at h
  rcases hf : (cycleSkipTake p.activePorts (e + 1) 4).find? (fun q => q.2.downstream.isNone) with _ | ⟨j, q⟩
  · rw [hf] at h; simp at h
  · rw [hf] at h
    simp at h
    subst h
    have hm := cycleSkipTake_subset _ _ _ _ (List.mem_of_find?_eq_some hf)
    rcases (mem_activePorts p j q).1 hm with ⟨h4, rfl, ha⟩
    exact ⟨h4, ha⟩

theorem assignedTo_setDownstream (p : Ports) (i x : Nat) (hi : i < 4) (ha : (p.get i).active = true) :
    ∃ k, (p.setDownstream i (some x)).assignedTo x = some k ∧ k < 4 := by
  unfold Ports.assignedTo
  have hmem : (i, (p.setDownstream i (some x)).get i) ∈ (p.setDownstream i (some x)).activePorts := by
    rw [mem_activePorts]
    refine ⟨hi, rfl, ?_⟩
    rw [(get_setDownstream_active p i i (some x) hi hi).1]; exact ha
  have hd : ((p.setDownstream i (some x)).get i).downstream = some x := by
    rw [get_setDownstream p i i _ hi hi]; simp
  cases hf : ((p.setDownstream i (some x)).activePorts.find? (fun q => q.2.downstream == some x)) with
  | none =>
    have := List.find?_eq_none.1 hf _ hmem
    simp [hd] at this
  | some q =>
    have hq := List.mem_of_find?_eq_some hf
    rcases q with ⟨k, q⟩
    exact ⟨k, rfl, ((mem_activePorts _ k q).1 hq).1⟩

theorem assignedTo_lt (p : Ports) (x k : Nat) (h : p.assignedTo x = some k) : k < 4 ∧ (p.get k).active = true := by
  unfold Ports.assignedTo at h
  cases hf : (p.activePorts.find? (fun q => q.2.downstream == some x)) with
  | none => rw [hf] at h; simp at h
  | some q =>
    rw [hf] at h; simp at h; subst h
    have hq := List.mem_of_find?_eq_some hf
    rcases q with ⟨k, q⟩
    rcases (mem_activePorts _ k q).1 hq with ⟨a, rfl, c⟩
    exact ⟨a, c⟩



theorem configureOffsets_ok_shape (m : Mode) (sd : Dev) (ps : List Dev) (accum : Nat) (sd' : Dev) (accum' : Nat)
    (ha : accum ≤ U32_MAX)
    (h : configureOffsets m sd ps accum = .ok (sd', accum')) :
    (sd' = sd ∧ accum' = accum ∧ (sd.parent.bind (fun pi => ps.find? (fun p => p.index == pi))) = none) ∨
    (sd' = { sd with delay := accum' } ∧ accum ≤ accum' ∧ accum' ≤ U32_MAX) := by
  have hU : U32_MAX = 4294967295 := rfl
  unfold configureOffsets at h
  repeat' (split at h)
  all_goals first
    | (cases h; done)
    | (simp only [Outcome.ok.injEq, Prod.mk.injEq] at h
       first
       | (obtain ⟨rfl, rfl⟩ := h; left; exact ⟨rfl, rfl, by assumption⟩)
       | (obtain ⟨rfl, rfl⟩ := h; right; refine ⟨rfl, ?_, ?_⟩ <;> (simp only [Nat.min_def]; split <;> omega)))


/-! ### replaceFirst -/

theorem replaceFirst_length (f : Dev → Bool) (new : Dev) (l : List Dev) :
    (replaceFirst f new l).length = l.length := by
  induction l with
  | nil => rfl
  | cons d ds ih => unfold replaceFirst; split <;> simp [ih]

theorem replaceFirst_map {β : Type} (g : Dev → β) (f : Dev → Bool) (new old : Dev) (l : List Dev)
    (hfind : l.find? f = some old) (hg : g new = g old) :
    (replaceFirst f new l).map g = l.map g := by
  induction l with
  | nil => simp at hfind
  | cons d ds ih =>
    unfold replaceFirst
    by_cases c : f d = true
    · simp [List.find?, c] at hfind
      subst hfind
      simp [c, hg]
    · simp [List.find?, c] at hfind
      simp [c, ih hfind]

theorem replaceFirst_find (f : Dev → Bool) (new old : Dev) (l : List Dev)
    (hfind : l.find? f = some old) (hf : f new = true) :
    (replaceFirst f new l).find? f = some new := by
  induction l with
  | nil => simp at hfind
  | cons d ds ih =>
    unfold replaceFirst
    by_cases c : f d = true
    · simp [c, hf]
    · simp [List.find?, c] at hfind
      simp [c, ih hfind]

theorem replaceFirst_mem (f : Dev → Bool) (new : Dev) (l : List Dev) :
    ∀ x ∈ replaceFirst f new l, x = new ∨ x ∈ l := by
  induction l with
  | nil => simp [replaceFirst]
  | cons d ds ih =>
    intro x hx
    unfold replaceFirst at hx
    by_cases c : f d = true
    · simp [c] at hx
      rcases hx with rfl | hx
      · exact Or.inl rfl
      · exact Or.inr (List.mem_cons_of_mem _ hx)
    · simp [c] at hx
      rcases hx with rfl | hx
      · exact Or.inr (List.mem_cons_self ..)
      · rcases ih x hx with h | h
        · exact Or.inl h
        · exact Or.inr (List.mem_cons_of_mem _ h)

/-! ### assignOnParent -/

/-- What a successful `assignOnParent` did. -/
theorem assignOnParent_ok (ps : List Dev) (pi si : Nat) (ps' : List Dev)
    (h : assignOnParent ps pi si = .ok ps') :
    ∃ par k, ps.find? (fun p => p.index == pi) = some par ∧ si ≠ 0 ∧ k < 4 ∧ (par.ports.get k).active = true ∧
      ps' = replaceFirst (fun p => p.index == pi)
              { par with ports := par.ports.setDownstream k (some si) } ps := by
  unfold assignOnParent at h
  cases hf : ps.find? (fun p => p.index == pi) with
  | none => rw [hf] at h; simp at h
  | some par =>
    rw [hf] at h
    simp only at h
    by_cases h0 : si = 0
    · simp [h0] at h
    · rw [if_neg h0] at h
      unfold Ports.assignNext at h
      cases he : par.ports.entryPort with
      | panic w => rw [he] at h; simp at h
      | err e => rw [he] at h; simp at h
      | ok e =>
        rw [he] at h
        simp only at h
        cases hn : par.ports.nextAssignable e.1 with
        | none => rw [hn] at h; simp at h
        | some k =>
          rw [hn] at h
          simp only [Outcome.ok.injEq] at h
          rcases nextAssignable_active _ _ _ hn with ⟨hk, hact⟩
          exact ⟨par, k, rfl, h0, hk, hact, h.symm⟩

/-- `assignOnParent` cannot panic when the parent exists and has an open port. -/
theorem assignOnParent_no_panic (ps : List Dev) (pi si : Nat) (w : String) (par : Dev)
    (hfind : ps.find? (fun p => p.index == pi) = some par) (hopen : 1 ≤ par.ports.openPorts) :
    assignOnParent ps pi si ≠ .panic w := by
  intro h
  unfold assignOnParent at h
  rw [hfind] at h
  simp only at h
  by_cases h0 : si = 0
  · simp [h0] at h
  · rw [if_neg h0] at h
    unfold Ports.assignNext at h
    rcases entryPort_ok _ hopen with ⟨e, he, _⟩
    rw [he] at h
    simp only at h
    cases hn : par.ports.nextAssignable e.1 with
    | none => rw [hn] at h; simp at h
    | some k => rw [hn] at h; simp at h

/-! ### findParent -/

theorem findJunction_cases (l : List Dev) (hopen : ∀ d ∈ l, 1 ≤ d.ports.openPorts) :
    findJunction l = .err .topology ∨ ∃ d ∈ l, findJunction l = .ok d.index := by
  induction l with
  | nil => left; rfl
  | cons d ds ih =>
    rcases topology_ok d.ports (hopen d (List.mem_cons_self ..)) with ⟨t, ht⟩
    unfold findJunction
    rw [ht]
    by_cases c : (t.isJunction && d.ports.hasFreeDownstream) = true
    · right; exact ⟨d, List.mem_cons_self .., by simp only [if_pos c]⟩
    · rcases ih (fun x hx => hopen x (List.mem_cons_of_mem _ hx)) with h | ⟨x, hx, h⟩
      · left; simp only [if_neg c]; exact h
      · right; exact ⟨x, List.mem_cons_of_mem _ hx, by simp only [if_neg c]; exact h⟩

theorem findParent_nil : findParent [] = .ok none := rfl

theorem findParent_cases (ps : List Dev) (hopen : ∀ d ∈ ps, 1 ≤ d.ports.openPorts) :
    (ps = [] ∧ findParent ps = .ok none) ∨ findParent ps = .err .topology ∨
    ∃ d ∈ ps, findParent ps = .ok (some d.index) := by
  unfold findParent
  cases hr : ps.reverse with
  | nil => left; exact ⟨List.reverse_eq_nil_iff.1 hr, rfl⟩
  | cons p rest =>
    right
    have hp : p ∈ ps := by
      have : p ∈ ps.reverse := by rw [hr]; exact List.mem_cons_self ..
      exact List.mem_reverse.1 this
    have hrest : ∀ d ∈ rest, d ∈ ps := by
      intro d hd
      have : d ∈ ps.reverse := by rw [hr]; exact List.mem_cons_of_mem _ hd
      exact List.mem_reverse.1 this
    rcases topology_ok p.ports (hopen p hp) with ⟨t, ht⟩
    simp only [ht]
    cases t with
    | lineEnd =>
      rcases findJunction_cases rest (fun d hd => hopen d (hrest d hd)) with h | ⟨x, hx, h⟩
      · left; simp [h]
      · right; exact ⟨x, hrest x hx, by simp [h]⟩
    | passthrough => right; exact ⟨p, hp, rfl⟩
    | fork => right; exact ⟨p, hp, rfl⟩
    | cross => right; exact ⟨p, hp, rfl⟩

/-- `findParent` answers `None` only for the first device. -/
theorem findParent_none (ps : List Dev) (h : findParent ps = .ok none) : ps = [] := by
  unfold findParent at h
  cases hr : ps.reverse with
  | nil => exact List.reverse_eq_nil_iff.1 hr
  | cons p rest =>
    rw [hr] at h
    simp only at h
    repeat' (split at h)
    all_goals first | (cases h; done) | skip



/-- The fields the topology code never writes. -/
def Dev.idk (d : Dev) : Nat × Bool × Nat := (d.index, d.dc, d.rxTime)

theorem configureOffsets_ok_fields (m : Mode) (sd : Dev) (ps : List Dev) (accum : Nat) (sd' : Dev) (accum' : Nat)
    (h : configureOffsets m sd ps accum = .ok (sd', accum')) :
    sd'.index = sd.index ∧ sd'.dc = sd.dc ∧ sd'.rxTime = sd.rxTime ∧ sd'.ports = sd.ports ∧ sd'.parent = sd.parent := by
  unfold configureOffsets at h
  repeat' (split at h)
  all_goals first
    | (cases h; done)
    | (simp only [Outcome.ok.injEq, Prod.mk.injEq] at h; obtain ⟨rfl, rfl⟩ := h; exact ⟨rfl, rfl, rfl, rfl, rfl⟩)

theorem assignOnParent_map {β : Type} (g : Dev → β) (hg : ∀ (d : Dev) (p : Ports), g { d with ports := p } = g d)
    (ps : List Dev) (pi si : Nat) (ps' : List Dev) (h : assignOnParent ps pi si = .ok ps') :
    ps'.map g = ps.map g := by
  rcases assignOnParent_ok ps pi si ps' h with ⟨par, k, hfind, _, _, _, rfl⟩
  exact replaceFirst_map g _ _ par ps hfind (hg par _)

/-- One iteration of the loop, when it continues. -/
theorem assignLoop_step (m : Mode) (ps : List Dev) (accum : Nat) (sd : Dev) (rest : List Dev) (out : List Dev)
    (h : assignLoop m ps accum (sd :: rest) = .ok out) :
    ∃ pidx ps' sd' accum',
      findParent ps = .ok pidx ∧
      assignStep ps pidx sd.index = .ok ps' ∧
      (if sd.dc then configureOffsets m { sd with parent := pidx } ps' accum = .ok (sd', accum')
       else sd' = { sd with parent := pidx } ∧ accum' = accum) ∧
      assignLoop m (ps' ++ [sd']) accum' rest = .ok out := by
  unfold assignLoop at h
  cases hfp : findParent ps with
  | panic w => rw [hfp] at h; simp at h
  | err e => rw [hfp] at h; simp at h
  | ok pidx =>
    rw [hfp] at h
    simp only at h
    cases ha : assignStep ps pidx sd.index with
    | panic w => rw [ha] at h; simp at h
    | err e => rw [ha] at h; simp at h
    | ok ps' =>
      rw [ha] at h
      simp only at h
      by_cases hdc : sd.dc = true
      · rw [if_pos hdc] at h
        cases hc : configureOffsets m { sd with parent := pidx } ps' accum with
        | panic w => rw [hc] at h; simp at h
        | err e => rw [hc] at h; simp at h
        | ok r =>
          rcases r with ⟨sd', accum'⟩
          rw [hc] at h
          exact ⟨pidx, ps', sd', accum', rfl, ha, by rw [if_pos hdc]; exact hc, h⟩
      · rw [if_neg hdc] at h
        exact ⟨pidx, ps', { sd with parent := pidx }, accum, rfl, ha, by rw [if_neg hdc]; exact ⟨rfl, rfl⟩, h⟩

theorem assignLoop_idk (m : Mode) (rest : List Dev) : ∀ (ps : List Dev) (accum : Nat) (out : List Dev),
    assignLoop m ps accum rest = .ok out → out.map Dev.idk = (ps ++ rest).map Dev.idk := by
  induction rest with
  | nil => intro ps accum out h; simp [assignLoop] at h; subst h; simp
  | cons sd rest ih =>
    intro ps accum out h
    rcases assignLoop_step m ps accum sd rest out h with ⟨pidx, ps', sd', accum', _, ha, hc, hl⟩
    have hps : ps'.map Dev.idk = ps.map Dev.idk := by
      cases pidx with
      | none => simp [assignStep] at ha; subst ha; rfl
      | some pi => exact assignOnParent_map Dev.idk (fun _ _ => rfl) ps pi sd.index ps' (by simpa [assignStep] using ha)
    have hsd : sd'.idk = sd.idk := by
      by_cases hdc : sd.dc = true
      · rw [if_pos hdc] at hc
        rcases configureOffsets_ok_fields _ _ _ _ _ _ hc with ⟨a, b, c, _, _⟩
        simp [Dev.idk, a, b, c]
      · rw [if_neg hdc] at hc
        rcases hc with ⟨rfl, _⟩
        rfl
    rw [ih _ _ _ hl]
    simp [hps, hsd]



/-- DC devices carry non-decreasing delays, in list order. -/
def Mono (l : List Dev) : Prop :=
  List.Pairwise (fun a b => a.dc = true → b.dc = true → a.delay ≤ b.delay) l

def Dev.key (d : Dev) : Bool × Nat := (d.dc, d.delay)

theorem mono_of_keys (l l' : List Dev) (h : l'.map Dev.key = l.map Dev.key) (hm : Mono l) : Mono l' := by
  unfold Mono at *
  have h1 : List.Pairwise (fun a b : Bool × Nat => a.1 = true → b.1 = true → a.2 ≤ b.2) (l.map Dev.key) := by
    rw [List.pairwise_map]; exact hm
  rw [← h, List.pairwise_map] at h1
  exact h1

theorem bound_of_keys (l l' : List Dev) (accum : Nat) (h : l'.map Dev.key = l.map Dev.key)
    (hb : ∀ d ∈ l, d.dc = true → d.delay ≤ accum) : ∀ d ∈ l', d.dc = true → d.delay ≤ accum := by
  intro d hd hdc
  have : d.key ∈ l'.map Dev.key := List.mem_map_of_mem hd
  rw [h] at this
  rcases List.mem_map.1 this with ⟨x, hx, hk⟩
  have h1 : x.dc = d.dc := congrArg Prod.fst hk
  have h2 : x.delay = d.delay := congrArg Prod.snd hk
  have := hb x hx (by rw [h1]; exact hdc)
  omega

theorem assignLoop_mono (m : Mode) (rest : List Dev) : ∀ (ps : List Dev) (accum : Nat) (out : List Dev),
    Mono ps → (∀ d ∈ ps, d.dc = true → d.delay ≤ accum) → accum ≤ U32_MAX → (∀ d ∈ rest, d.delay = 0) →
    assignLoop m ps accum rest = .ok out → Mono out := by
  induction rest with
  | nil => intro ps accum out hm _ _ _ h; simp [assignLoop] at h; subst h; exact hm
  | cons sd rest ih =>
    intro ps accum out hm hb hacc h0 h
    rcases assignLoop_step m ps accum sd rest out h with ⟨pidx, ps', sd', accum', hfp, ha, hc, hl⟩
    have hkeys : ps'.map Dev.key = ps.map Dev.key := by
      cases pidx with
      | none => simp [assignStep] at ha; subst ha; rfl
      | some pi => exact assignOnParent_map Dev.key (fun _ _ => rfl) ps pi sd.index ps' (by simpa [assignStep] using ha)
    have hm' := mono_of_keys ps ps' hkeys hm
    have hb' := bound_of_keys ps ps' accum hkeys hb
    have hsd0 : sd.delay = 0 := h0 sd (List.mem_cons_self ..)
    -- the new device and the new accumulator
    have key : accum ≤ accum' ∧ accum' ≤ U32_MAX ∧ (sd'.dc = true → (ps' = [] ∨ sd'.delay = accum')) ∧
        (sd'.dc = true → sd'.delay ≤ accum') := by
      by_cases hdc : sd.dc = true
      · rw [if_pos hdc] at hc
        rcases configureOffsets_ok_shape m _ ps' accum sd' accum' hacc hc with ⟨rfl, rfl, hnone⟩ | ⟨rfl, h1, h2⟩
        · refine ⟨Nat.le_refl _, hacc, ?_, ?_⟩
          · intro _
            left
            cases pidx with
            | none =>
              have := findParent_none ps hfp
              subst this
              simp [assignStep] at ha; exact ha
            | some pi =>
              exfalso
              simp only [assignStep] at ha
              rcases assignOnParent_ok ps pi sd.index ps' ha with ⟨par, k, hfind, _, _, _, rfl⟩
              have := replaceFirst_find (fun p => p.index == pi) { par with ports := par.ports.setDownstream k (some sd.index) } par ps hfind (by
                have := List.find?_some hfind
                simpa using this)
              simp [this] at hnone
          · intro _; simp [hsd0]
        · exact ⟨h1, h2, fun _ => Or.inr rfl, fun _ => Nat.le_refl _⟩
      · rw [if_neg hdc] at hc
        rcases hc with ⟨rfl, rfl⟩
        exact ⟨Nat.le_refl _, hacc, fun h => absurd h hdc, fun h => absurd h hdc⟩
    rcases key with ⟨k1, k2, k3, k4⟩
    apply ih (ps' ++ [sd']) accum' out _ _ k2 (fun d hd => h0 d (List.mem_cons_of_mem _ hd)) hl
    · unfold Mono
      rw [List.pairwise_append]
      refine ⟨hm', List.pairwise_singleton _ _, ?_⟩
      intro a ha' b hb'' hadc hbdc
      simp at hb''
      subst hb''
      rcases k3 hbdc with e | e
      · subst e; simp at ha'
      · have := hb' a ha' hadc
        omega
    · intro d hd hdc
      rcases List.mem_append.1 hd with hd | hd
      · have := hb' d hd hdc; omega
      · simp at hd; subst hd; exact k4 hdc



theorem cross_lastPort (p : Ports) (h : p.topology = .ok .cross) : p.lastPort = some 3 := by
  rcases p with ⟨⟨a0,t0,d0⟩,⟨a1,t1,d1⟩,⟨a2,t2,d2⟩,⟨a3,t3,d3⟩⟩
  cases a0 <;> cases a1 <;> cases a2 <;> cases a3 <;>
    simp [Ports.topology, Ports.openPorts, Ports.activePorts, Ports.indexed, Ports.lastPort] at h ⊢

theorem sumU32_ok (m : Mode) (l : List Nat) : ∀ acc, acc + l.sum < U32 → sumU32 m l acc = .ok (acc + l.sum) := by
  induction l with
  | nil => intro acc _; simp [sumU32]
  | cons x xs ih =>
    intro acc h
    simp only [List.sum_cons] at h
    have h1 : acc + x < U32 := by omega
    simp only [sumU32, addU32, h1, if_true]
    rw [ih (acc + x) (by omega)]
    simp [List.sum_cons, Nat.add_assoc]

theorem intermediate_no_panic (m : Mode) (p : Ports) (idx : Nat) (ht : TimesOk p) (hi : idx ≤ 2) :
    ∃ v, p.intermediate m idx = .ok v := by
  rcases ht with ⟨h0, h1, h2, h3⟩
  have hU : U32 = 4294967296 := rfl
  unfold Ports.intermediate
  refine ⟨_, sumU32_ok m _ 0 ?_⟩
  simp only [List.sum_cons, List.sum_nil, ge_iff_le]
  split <;> split <;> (try split) <;> (try split) <;> (try split) <;> omega

/-- A device report the no-panic theorem accepts: at least one open port, `u32` receive times. -/
def Good (d : Dev) : Prop := 1 ≤ d.ports.openPorts ∧ TimesOk d.ports

theorem configureOffsets_no_panic (m : Mode) (sd : Dev) (ps : List Dev) (accum : Nat)
    (hsd : Good sd) (hps : ∀ d ∈ ps, Good d)
    (hpar : ∀ par, sd.parent.bind (fun pi => ps.find? (fun p => p.index == pi)) = some par →
        ∃ k, par.ports.assignedTo sd.index = some k)
    (w : String) : configureOffsets m sd ps accum ≠ .panic w := by
  intro h
  unfold configureOffsets at h
  rcases topology_ok sd.ports hsd.1 with ⟨t, ht⟩
  rw [ht] at h
  simp only at h
  cases hb : sd.parent.bind (fun pi => ps.find? (fun p => p.index == pi)) with
  | none => rw [hb] at h; simp at h
  | some par =>
    rw [hb] at h
    simp only at h
    have hmem : par ∈ ps := by
      cases hp : sd.parent with
      | none => rw [hp] at hb; simp at hb
      | some pi => rw [hp] at hb; simp only [Option.bind_some] at hb; exact List.mem_of_find?_eq_some hb
    have hgood := hps par hmem
    rcases hpar par hb with ⟨k, hk⟩
    rw [hk] at h
    simp only at h
    rcases entryPort_ok sd.ports hsd.1 with ⟨e, he, _⟩
    rw [he] at h
    simp only at h
    rcases topology_ok par.ports hgood.1 with ⟨pt, hpt⟩
    rw [hpt] at h
    simp only at h
    have hchild : ∃ c, isChildOf sd.index par = .ok c ∧
        (c = true → pt = .cross → k ≤ 2) := by
      unfold isChildOf
      rw [hpt, hk]
      refine ⟨_, rfl, ?_⟩
      intro hc hcross
      subst hcross
      have hl := cross_lastPort par.ports hpt
      simp [Ports.isLastPort, hl, Topology.isJunction] at hc
      have := (assignedTo_lt par.ports sd.index k hk).1
      omega
    rcases hchild with ⟨c, hc, hck⟩
    rw [hc] at h
    simp only at h
    cases pt with
    | passthrough => simp at h
    | lineEnd => simp at h
    | fork =>
      simp only at h
      cases c with
      | false => simp at h
      | true =>
        simp only [if_true] at h
        unfold Ports.propTimeTo at h
        rcases entryPort_ok par.ports hgood.1 with ⟨e2, he2, _⟩
        rw [he2] at h
        simp at h
    | cross =>
      simp only at h
      cases c with
      | false => simp at h
      | true =>
        simp only [if_true] at h
        rcases intermediate_no_panic m par.ports k hgood.2 (hck rfl rfl) with ⟨v, hv⟩
        rw [hv] at h
        simp at h



/-- Discovery positions: `l[j].index = base + j`. -/
def Indexed : Nat → List Dev → Prop
  | _, [] => True
  | base, d :: ds => d.index = base ∧ Indexed (base + 1) ds

theorem good_setDownstream (par : Dev) (k : Nat) (v : Option Nat) (h : Good par) :
    Good { par with ports := par.ports.setDownstream k v } := by
  refine ⟨?_, timesOk_setDownstream _ _ _ h.2⟩
  show 1 ≤ (par.ports.setDownstream k v).openPorts
  rw [openPorts_setDownstream]; exact h.1

theorem assignLoop_no_panic (m : Mode) (rest : List Dev) :
    ∀ (ps : List Dev) (accum : Nat) (w : String),
    (∀ d ∈ ps, Good d) → (∀ d ∈ rest, Good d) → Indexed ps.length rest →
    assignLoop m ps accum rest ≠ .panic w := by
  induction rest with
  | nil => intro ps accum w _ _ _ h; simp [assignLoop] at h
  | cons sd rest ih =>
    intro ps accum w hps hrest hidx h
    exfalso
    have hsd : Good sd := hrest sd (List.mem_cons_self ..)
    have hrest' : ∀ d ∈ rest, Good d := fun d hd => hrest d (List.mem_cons_of_mem _ hd)
    rcases hidx with ⟨hi, hidx'⟩
    unfold assignLoop at h
    rcases findParent_cases ps (fun d hd => (hps d hd).1) with ⟨rfl, hfp⟩ | hfp | ⟨pd, hpd, hfp⟩
    · -- first device: no parent
      rw [hfp] at h
      simp only [assignStep] at h
      by_cases hdc : sd.dc = true
      · rw [if_pos hdc] at h
        cases hc : configureOffsets m { sd with parent := none } [] accum with
        | panic w' =>
          exact absurd hc (configureOffsets_no_panic m { sd with parent := none } [] accum hsd (by simp) (by simp) w')
        | err e => rw [hc] at h; simp at h
        | ok r =>
          rcases r with ⟨sd', accum'⟩
          rw [hc] at h
          simp only at h
          rcases configureOffsets_ok_fields _ _ _ _ _ _ hc with ⟨_, _, _, hp, _⟩
          refine ih ([] ++ [sd']) accum' w ?_ hrest' (by simpa using hidx') h
          intro d hd; simp at hd; subst hd
          exact ⟨by rw [hp]; exact hsd.1, by rw [hp]; exact hsd.2⟩
      · rw [if_neg hdc] at h
        refine ih ([] ++ [_]) accum w ?_ hrest' (by simpa using hidx') h
        intro d hd; simp at hd; subst hd; exact hsd
    · rw [hfp] at h; simp at h
    · rw [hfp] at h
      simp only [assignStep] at h
      -- the parent exists in `ps`
      have hex : ∃ par, ps.find? (fun p => p.index == pd.index) = some par := by
        cases hf : ps.find? (fun p => p.index == pd.index) with
        | some par => exact ⟨par, rfl⟩
        | none =>
          have := List.find?_eq_none.1 hf pd hpd
          simp at this
      rcases hex with ⟨par, hfind⟩
      have hparmem : par ∈ ps := List.mem_of_find?_eq_some hfind
      cases ha : assignOnParent ps pd.index sd.index with
      | panic w' =>
        exact assignOnParent_no_panic ps pd.index sd.index w' par hfind (hps par hparmem).1 ha
      | err e => rw [ha] at h; simp at h
      | ok ps' =>
        rw [ha] at h
        simp only at h
        rcases assignOnParent_ok ps pd.index sd.index ps' ha with ⟨par', k, hfind', _, hk, hact, hps'⟩
        rw [hfind] at hfind'; cases hfind'
        have hgood' : ∀ d ∈ ps', Good d := by
          intro d hd
          rw [hps'] at hd
          rcases replaceFirst_mem _ _ _ d hd with rfl | hd
          · exact good_setDownstream par k _ (hps par hparmem)
          · exact hps d hd
        have hlen : ps'.length = ps.length := by rw [hps']; exact replaceFirst_length _ _ _
        have hfindnew : ps'.find? (fun p => p.index == pd.index) =
            some { par with ports := par.ports.setDownstream k (some sd.index) } := by
          rw [hps']
          exact replaceFirst_find _ _ par ps hfind (by
            have := List.find?_some hfind
            simpa using this)
        by_cases hdc : sd.dc = true
        · rw [if_pos hdc] at h
          cases hc : configureOffsets m { sd with parent := some pd.index } ps' accum with
          | panic w' =>
            exfalso
            refine configureOffsets_no_panic m { sd with parent := some pd.index } ps' accum hsd hgood' ?_ w' hc
            intro p hp
            simp only [Option.bind_some, hfindnew] at hp
            cases hp
            rcases assignedTo_setDownstream par.ports k sd.index hk hact with ⟨k', hk', _⟩
            exact ⟨k', hk'⟩
          | err e => rw [hc] at h; simp at h
          | ok r =>
            rcases r with ⟨sd', accum'⟩
            rw [hc] at h
            simp only at h
            rcases configureOffsets_ok_fields _ _ _ _ _ _ hc with ⟨_, _, _, hp, _⟩
            refine ih (ps' ++ [sd']) accum' w ?_ hrest' (by simpa [hlen] using hidx') h
            intro d hd
            rcases List.mem_append.1 hd with hd | hd
            · exact hgood' d hd
            · simp at hd; subst hd
              exact ⟨by rw [hp]; exact hsd.1, by rw [hp]; exact hsd.2⟩
        · rw [if_neg hdc] at h
          refine ih (ps' ++ [_]) accum w ?_ hrest' (by simpa [hlen] using hidx') h
          intro d hd
          rcases List.mem_append.1 hd with hd | hd
          · exact hgood' d hd
          · simp at hd; subst hd; exact hsd



/-! ### the i64 offset -/

/-- The offset is master time minus receive time as a two's-complement 64-bit value, in every
    build mode, for every pair of 64-bit values. -/
theorem offsetI64_value (m : Mode) (rx now : Nat) (h1 : rx < U64) (h2 : now < U64) :
    offsetI64 m rx now = .ok ((now + U64 - rx) % U64) := by
  have hU : U64 = 18446744073709551616 := rfl
  simp only [hU] at *
  unfold offsetI64 toI64
  by_cases a : rx < 9223372036854775808 <;> by_cases b : now < 9223372036854775808 <;>
    simp [a, b] <;> omega

theorem offsetI64_ok_value (m : Mode) (rx now v : Nat) (h1 : rx < U64) (h2 : now < U64)
    (h : offsetI64 m rx now = .ok v) : v = (now + U64 - rx) % U64 := by
  rw [offsetI64_value m rx now h1 h2] at h; cases h; rfl

/-! ### the write loop -/

/-- The two registers `write_dc_parameters` programs in one DC device. -/
def dcWrites (now : Nat) (addrs : List Nat) (d : Dev) : List Write :=
  [⟨addrs.getD d.index 0, 0x0920, le64 ((now + U64 - d.rxTime) % U64)⟩,
   ⟨addrs.getD d.index 0, 0x0928, le32 d.delay⟩]

theorem writeLoop_ok (m : Mode) (now : Nat) (addrs : List Nat) (hnow : now < U64) (devs : List Dev)
    (hrx : ∀ d ∈ devs, d.rxTime < U64) (ws : List Write)
    (h : writeLoop m now addrs devs = (ws, .ok ())) :
    ws = (devs.filter (fun d => d.dc)).flatMap (dcWrites now addrs) := by
  induction devs generalizing ws with
  | nil => simp [writeLoop] at h; simp [h]
  | cons d ds ih =>
    have hrx' : ∀ x ∈ ds, x.rxTime < U64 := fun x hx => hrx x (List.mem_cons_of_mem _ hx)
    unfold writeLoop at h
    by_cases hdc : d.dc = true
    · rw [if_pos hdc] at h
      cases ho : offsetI64 m d.rxTime now with
      | panic w => rw [ho] at h; simp at h
      | err e => rw [ho] at h; simp at h
      | ok off =>
        rw [ho] at h
        simp only [Prod.mk.injEq] at h
        rcases h with ⟨h1, h2⟩
        have hv := offsetI64_ok_value m d.rxTime now off (hrx d (List.mem_cons_self ..)) hnow ho
        have := ih hrx' (writeLoop m now addrs ds).1 (by rw [← h2])
        rw [← h1, this, hv]
        simp [hdc, dcWrites]
        decide
    · rw [if_neg hdc] at h
      rw [ih hrx' ws h]
      simp [hdc]



/-- Position of the first report with DC support, counting from `base`. -/
def firstDcFrom : Nat → List Report → Option Nat
  | _, [] => none
  | base, r :: rs => if r.dc then some base else firstDcFrom (base + 1) rs

theorem find_dc_of_idk (l l' : List Dev) (h : l.map Dev.idk = l'.map Dev.idk) :
    (l.find? (fun d => d.dc)).map (·.index) = (l'.find? (fun d => d.dc)).map (·.index) := by
  induction l generalizing l' with
  | nil => cases l' with
    | nil => rfl
    | cons _ _ => simp at h
  | cons d ds ih =>
    cases l' with
    | nil => simp at h
    | cons d' ds' =>
      simp only [List.map_cons, List.cons.injEq] at h
      rcases h with ⟨h1, h2⟩
      have hi : d.index = d'.index := congrArg Prod.fst h1
      have hd : d.dc = d'.dc := congrArg (fun x => x.2.1) h1
      simp only [List.find?]
      rw [← hd]
      cases d.dc with
      | true => simp [hi]
      | false => simpa using ih ds' h2

theorem find_dc_latch (f : Nat → Report → Dev) (hf : ∀ i r, (f i r).index = i ∧ (f i r).dc = r.dc)
    (rs : List Report) : ∀ base,
    ((mkDevsFrom f base rs).find? (fun d => d.dc)).map (·.index) = firstDcFrom base rs := by
  induction rs with
  | nil => intro base; rfl
  | cons r rs ih =>
    intro base
    simp only [mkDevsFrom, List.find?, firstDcFrom, (hf base r).2]
    cases r.dc with
    | true => simp [(hf base r).1]
    | false => simpa using ih (base + 1)

theorem latchOne_fields (i : Nat) (r : Report) : (latchOne i r).index = i ∧ (latchOne i r).dc = r.dc := by
  unfold latchOne
  by_cases h : r.dc = true
  · simp [h, devOfReport]
  · simp [h]

theorem devOfReport_fields (i : Nat) (r : Report) : (devOfReport i r).index = i ∧ (devOfReport i r).dc = r.dc := by
  simp [devOfReport]


/-! ### the up-front validation of `assign_parent_relationships` -/

theorem assign_eq_loop (m : Mode) (devs : List Dev) (h : ∀ d ∈ devs, 1 ≤ d.ports.openPorts) :
    assignParentRelationships m devs = assignLoop m [] 0 devs := by
  unfold assignParentRelationships
  have : devs.any (fun d => d.ports.openPorts == 0) = false := by
    rw [List.any_eq_false]
    intro d hd
    have := h d hd
    simp; omega
  simp [this]

theorem assign_cases (m : Mode) (devs : List Dev) :
    assignParentRelationships m devs = .err .topology ∨
    ((∀ d ∈ devs, 1 ≤ d.ports.openPorts) ∧ assignParentRelationships m devs = assignLoop m [] 0 devs) := by
  by_cases h : ∀ d ∈ devs, 1 ≤ d.ports.openPorts
  · exact Or.inr ⟨h, assign_eq_loop m devs h⟩
  · left
    unfold assignParentRelationships
    have : devs.any (fun d => d.ports.openPorts == 0) = true := by
      rw [List.any_eq_true]
      have h' : ∃ d, d ∈ devs ∧ ¬ 1 ≤ d.ports.openPorts := by
        apply Classical.byContradiction
        intro hn
        apply h
        intro d hd
        apply Classical.byContradiction
        intro hc
        exact hn ⟨d, hd, hc⟩
      rcases h' with ⟨d, hd, hc⟩
      exact ⟨d, hd, by simp; omega⟩
    simp [this]

theorem assign_ok_loop (m : Mode) (devs out : List Dev) (h : assignParentRelationships m devs = .ok out) :
    assignLoop m [] 0 devs = .ok out := by
  rcases assign_cases m devs with he | ⟨_, hl⟩
  · rw [he] at h; cases h
  · rw [← hl]; exact h

end Ec.Dc
