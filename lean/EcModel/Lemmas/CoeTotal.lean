/-
  C16 helper lemmas: which replies can make the client panic, invariants of the device queue, and
  panic-freedom of every entry point under those invariants, for an arbitrary `World`.
-/
import EcModel.Lemmas.CoeBasic

namespace Ec.Coe
open Ec Ec.Gen.Coe

/-! ### What the decoders return -/

theorem getD_take {α : Type} (l : List α) (n i : Nat) (d : α) (h : i < n) : (l.take n).getD i d = l.getD i d := by
  simp [List.getD_eq_getElem?_getD, List.getElem?_take, h]

theorem rd16_take (b : List Nat) (n : Nat) (h : 2 ≤ n) : rd16 (b.take n) = rd16 b := by
  unfold rd16
  rw [getD_take b n 0 0 (by omega), getD_take b n 1 0 (by omega)]

theorem unpackMailboxHeader_length (b : List Nat) (h : MbxHeader) (hh : unpackMailboxHeader b = .ok h) :
    h.length = rd16 b := by
  unfold unpackMailboxHeader at hh
  dsimp only at hh
  repeat' split at hh
  all_goals first | (cases hh; rfl) | cases hh

/-- Service nibble of a mailbox image (byte 7, bits 4..7). -/
def svcNibble (img : List Nat) : Nat := bitsOf (img.getD 7 0) 4 4

theorem unpackService_eq (b : List Nat) (s : Nat) (h : unpackService b = .ok s) : s = svcNibble b := by
  unfold unpackService at h
  dsimp only at h
  split at h
  · cases h; rfl
  · cases h

theorem bind_ok_inv {α β : Type} {x : Res α} {f : α → Res β} {b : β} (h : Res.bind x f = .ok b) :
    ∃ a, x = .ok a ∧ f a = .ok b := by
  cases x with
  | ok a => exact ⟨a, rfl, h⟩
  | err e => cases h
  | panic w => cases h

theorem unpackHeadersRaw_facts (b : List Nat) (h : HeadersRaw) (hh : unpackHeadersRaw b = .ok h) :
    h.service = svcNibble b ∧ h.header.length = rd16 b ∧ LEN_HeadersRaw ≤ b.length := by
  unfold unpackHeadersRaw at hh
  split at hh
  · cases hh
  · next hlen =>
    obtain ⟨mh, h1, hh⟩ := bind_ok_inv hh
    obtain ⟨sv, h2, hh⟩ := bind_ok_inv hh
    obtain ⟨cm, _, hh⟩ := bind_ok_inv hh
    cases hh
    refine ⟨unpackService_eq b sv h2, ?_, by omega⟩
    rw [unpackMailboxHeader_length _ _ h1]
    exact rd16_take b _ (by decide)

theorem unpackSdoSegmented_length (b : List Nat) (h : SdoSegmented) (hh : unpackSdoSegmented b = .ok h) :
    h.header.length = rd16 b := by
  unfold unpackSdoSegmented at hh
  split at hh
  · cases hh
  · obtain ⟨mh, h1, hh⟩ := bind_ok_inv hh
    obtain ⟨sv, _, hh⟩ := bind_ok_inv hh
    obtain ⟨cm, _, hh⟩ := bind_ok_inv hh
    cases hh
    rw [unpackMailboxHeader_length _ _ h1]
    exact rd16_take b _ (by decide)

theorem unpackListResponse_length (b : List Nat) (h : ListResponse) (hh : unpackListResponse b = .ok h) :
    h.mailbox.length = rd16 b ∧ LEN_ListResponse ≤ b.length := by
  unfold unpackListResponse at hh
  split at hh
  · cases hh
  · next hlen =>
    obtain ⟨mh, h1, hh⟩ := bind_ok_inv hh
    obtain ⟨sv, _, hh⟩ := bind_ok_inv hh
    dsimp only at hh
    split at hh
    · cases hh
    · cases hh
      refine ⟨?_, by omega⟩
      rw [unpackMailboxHeader_length _ _ h1]
      exact rd16_take b _ (by decide)

/-! ### Invariants of an arbitrary device -/

/-- An invariant of the device: a predicate on every message it queues and one on its internal state. -/
structure DevInv (σ : Type) where
  msg : List Nat → Prop
  dev : σ → Prop

/-- The device state satisfies the invariant and so does every message queued for the OUT mailbox. -/
def QGood {σ : Type} (P : DevInv σ) (s : St σ) : Prop := P.dev s.dev ∧ ∀ m ∈ s.outq, P.msg m

/-- The device keeps the invariant: whatever it is asked, it stays in `P.dev` and only produces `P.msg` messages. -/
def WGood {σ : Type} (P : DevInv σ) (w : World σ) : Prop :=
  ∀ d req, P.dev d → P.dev (w.respond d req).1 ∧ ∀ m ∈ (w.respond d req).2, P.msg m

/-- A stateful step neither panicked nor broke the invariant. -/
def Safe {σ α : Type} (P : DevInv σ) (r : Res α × St σ) : Prop := Res.isPanic r.1 = false ∧ QGood P r.2

/-! ### triage -/

theorem triage_noPanic {ρ : Type} (cfg : Cfg) (u : List Nat → Res ρ) (v : Nat → Nat → Bool) (p : Pdu)
    (hu : ∀ b, Res.isPanic (u b) = false) : Res.isPanic (triage cfg u v p) = false := by
  unfold triage
  refine Res.bind_noPanic _ _ (unpackCoeHeaders_noPanic _) fun ch _ => ?_
  split
  · exact Res.bind_noPanic _ _ (unpackEmergency_noPanic _) fun _ _ => rfl
  · refine Res.bind_noPanic _ _ (unpackHeadersRaw_noPanic _) fun h _ => ?_
    split
    · exact Res.bind_noPanic _ _ (unpackU32_noPanic _) fun _ _ => rfl
    · split
      · rfl
      · exact Res.bind_noPanic _ _ (hu _) fun _ _ => rfl

theorem triage_ok {ρ : Type} (cfg : Cfg) (u : List Nat → Res ρ) (v : Nat → Nat → Bool) (p : Pdu) (r : ρ)
    (data : List Nat) (h : triage cfg u v p = .ok (r, data)) :
    u p.bytes = .ok r ∧ data = (p.trimFront LEN_HeadersRaw).bytes ∧ LEN_HeadersRaw ≤ p.bytes.length := by
  unfold triage at h
  obtain ⟨ch, _, h⟩ := bind_ok_inv h
  split at h
  · obtain ⟨_, _, h⟩ := bind_ok_inv h; cases h
  · obtain ⟨hd, hh, h⟩ := bind_ok_inv h
    have hlen := (unpackHeadersRaw_facts _ _ hh).2.2
    split at h
    · obtain ⟨_, _, h⟩ := bind_ok_inv h; cases h
    · split at h
      · cases h
      · obtain ⟨r', hr, h⟩ := bind_ok_inv h
        cases h
        exact ⟨hr, rfl, hlen⟩

/-! ### mailbox_write_read -/

theorem mem_drop {α : Type} {l : List α} {n : Nat} {a : α} (h : a ∈ l.drop n) : a ∈ l := List.mem_of_mem_drop h

theorem drainStale_good {σ : Type} (P : DevInv σ) (s : St σ) (hs : QGood P s) : QGood P (drainStale s) :=
  ⟨hs.1, fun m hm => hs.2 m (mem_drop hm)⟩

theorem writeRequest_good {σ : Type} (P : DevInv σ) (w : World σ) (cfg : Cfg) (req : List Nat) (s : St σ)
    (hw : WGood P w) (hs : QGood P s) : QGood P (writeRequest w cfg req s) := by
  refine ⟨(hw _ _ hs.1).1, ?_⟩
  intro m hm
  simp only [writeRequest, List.mem_append] at hm
  rcases hm with hm | hm
  · exact hs.2 m hm
  · exact (hw _ _ hs.1).2 m hm

/-- Everything `mailbox_write_read` can do, for any device: no mailbox, no answer, or the triage of one message that
    was queued in the device or produced by it. The queue invariant is kept. -/
theorem mwr_spec {σ ρ : Type} (P : DevInv σ) (w : World σ) (cfg : Cfg) (req : List Nat) (u : List Nat → Res ρ)
    (v : Nat → Nat → Bool) (s : St σ) (hw : WGood P w) (hs : QGood P s) :
    QGood P (mailboxWriteRead w cfg req u v s).2 ∧
      ((mailboxWriteRead w cfg req u v s).1 = .err .noMailbox ∨ (mailboxWriteRead w cfg req u v s).1 = .err .timeout ∨
        ∃ m, P.msg m ∧ (mailboxWriteRead w cfg req u v s).1 = triage cfg u v (mkPdu cfg (image cfg.rmbx m))) := by
  unfold mailboxWriteRead
  split
  · exact ⟨hs, Or.inl rfl⟩
  · dsimp only
    have hq : QGood P (writeRequest w cfg req (drainStale s)) := writeRequest_good P w cfg req _ hw (drainStale_good P s hs)
    generalize writeRequest w cfg req (drainStale s) = s1 at hq ⊢
    unfold readMailbox
    cases hc : s1.outq with
    | nil => exact ⟨hq, Or.inr (Or.inl rfl)⟩
    | cons m q =>
      refine ⟨⟨hq.1, ?_⟩, Or.inr (Or.inr ⟨m, hq.2 m (by rw [hc]; exact List.mem_cons_self), rfl⟩)⟩
      intro m' hm'
      exact hq.2 m' (by rw [hc]; exact List.mem_cons_of_mem _ hm')

theorem mwr_safe {σ ρ : Type} (P : DevInv σ) (w : World σ) (cfg : Cfg) (req : List Nat) (u : List Nat → Res ρ)
    (v : Nat → Nat → Bool) (s : St σ) (hw : WGood P w) (hs : QGood P s) (hu : ∀ b, Res.isPanic (u b) = false) :
    Safe P (mailboxWriteRead w cfg req u v s) := by
  obtain ⟨hq, hr⟩ := mwr_spec P w cfg req u v s hw hs
  refine ⟨?_, hq⟩
  rcases hr with hr | hr | ⟨m, hm, hr⟩
  · rw [hr]; rfl
  · rw [hr]; rfl
  · rw [hr]
    exact triage_noPanic cfg u v _ hu

/-- A successful `mailbox_write_read` decoded its header from, and returns the data area of, one `P` message. -/
theorem mwr_ok {σ ρ : Type} (P : DevInv σ) (w : World σ) (cfg : Cfg) (req : List Nat) (u : List Nat → Res ρ)
    (v : Nat → Nat → Bool) (s : St σ) (hw : WGood P w) (hs : QGood P s) (r : ρ) (data : List Nat)
    (h : (mailboxWriteRead w cfg req u v s).1 = .ok (r, data)) :
    ∃ m, P.msg m ∧ u (image cfg.rmbx m) = .ok r ∧ data = (image cfg.rmbx m).drop LEN_HeadersRaw ∧
      LEN_HeadersRaw ≤ (image cfg.rmbx m).length := by
  obtain ⟨_, hr⟩ := mwr_spec P w cfg req u v s hw hs
  rcases hr with hr | hr | ⟨m, hm, hr⟩
  · rw [hr] at h; cases h
  · rw [hr] at h; cases h
  · rw [hr] at h
    obtain ⟨h1, h2, h3⟩ := triage_ok cfg u v _ r data h
    rw [mkPdu_bytes] at h1 h3
    refine ⟨m, hm, h1, ?_, h3⟩
    rw [h2, Pdu.trimFront_bytes _ _ (mkPdu_ok cfg _), mkPdu_bytes]

/-! ### Entry points: reads -/

theorem mailboxCounter_outq {σ : Type} (s : St σ) : (mailboxCounter s).2.outq = s.outq := rfl

theorem mailboxCounter_good {σ : Type} (P : DevInv σ) (s : St σ) (hs : QGood P s) :
    QGood P (mailboxCounter s).2 := hs

theorem segLoop_safe {σ : Type} (w : World σ) (cfg : Cfg) (P : DevInv σ) (hw : WGood P w) :
    ∀ (fuel : Nat) (toggle : Bool) (buf : List Nat) (total : Nat) (s : St σ), QGood P s →
      Safe P (segLoop w cfg fuel toggle buf total s) := by
  intro fuel
  induction fuel with
  | zero => intro toggle buf total s hs; exact ⟨rfl, hs⟩
  | succ fuel ih =>
    intro toggle buf total s hs
    unfold segLoop
    dsimp only
    have hsafe := mwr_safe P w cfg (segmentRequest (mailboxCounter s).1 toggle) unpackSdoSegmented
      (fun _ _ => true) (mailboxCounter s).2 hw hs unpackSdoSegmented_noPanic
    generalize mailboxWriteRead w cfg (segmentRequest (mailboxCounter s).1 toggle) unpackSdoSegmented
      (fun _ _ => true) (mailboxCounter s).2 = r at hsafe
    obtain ⟨r1, s'⟩ := r
    obtain ⟨hnp, hq⟩ := hsafe
    cases r1 with
    | err e => exact ⟨rfl, hq⟩
    | panic why => simp at hnp
    | ok hd =>
      obtain ⟨h, data⟩ := hd
      dsimp only
      repeat' split
      all_goals first
        | exact ⟨rfl, hq⟩
        | exact ih _ _ _ s' hq

theorem sdoRead_safe {σ : Type} (w : World σ) (cfg : Cfg) (P : DevInv σ) (hw : WGood P w) (fuel bufLen index : Nat)
    (access : SubIndex) (s : St σ) (hs : QGood P s) :
    Safe P (sdoRead w cfg fuel bufLen index access s) := by
  unfold sdoRead
  dsimp only
  have hsafe := mwr_safe P w cfg (uploadRequest (mailboxCounter s).1 index access) unpackSdoNormal
    (validateIdx index access.subIndex) (mailboxCounter s).2 hw hs unpackSdoNormal_noPanic
  generalize mailboxWriteRead w cfg (uploadRequest (mailboxCounter s).1 index access) unpackSdoNormal
    (validateIdx index access.subIndex) (mailboxCounter s).2 = r at hsafe
  obtain ⟨r1, s'⟩ := r
  obtain ⟨hnp, hq⟩ := hsafe
  cases r1 with
  | err e => exact ⟨rfl, hq⟩
  | panic why => simp at hnp
  | ok hd =>
    obtain ⟨h, data⟩ := hd
    dsimp only
    split
    · refine ⟨?_, hq⟩
      split <;> rfl
    · have hu := unpackU32_noPanic data
      cases hu32 : unpackU32 data with
      | panic why => rw [hu32] at hu; simp at hu
      | err e => exact ⟨rfl, hq⟩
      | ok completeSize =>
        dsimp only
        split
        · exact ⟨rfl, hq⟩
        · split
          · refine ⟨?_, hq⟩
            split <;> rfl
          · exact segLoop_safe w cfg P hw _ _ _ _ s' hq

theorem sdoReadT_safe {σ α : Type} (w : World σ) (cfg : Cfg) (P : DevInv σ) (hw : WGood P w) (fuel : Nat) (T : Dest α)
    (index : Nat) (access : SubIndex) (s : St σ) (hs : QGood P s) :
    Safe P (sdoReadT w cfg fuel T index access s) := by
  unfold sdoReadT
  have h := sdoRead_safe w cfg P hw fuel T.bufLen index access s hs
  generalize sdoRead w cfg fuel T.bufLen index access s = r at h
  obtain ⟨r1, s'⟩ := r
  obtain ⟨hnp, hq⟩ := h
  cases r1 with
  | err e => exact ⟨rfl, hq⟩
  | panic why => simp at hnp
  | ok payload =>
    refine ⟨?_, hq⟩
    dsimp only
    split <;> rfl

theorem sdoReadExpedited_safe {σ : Type} (w : World σ) (cfg : Cfg) (P : DevInv σ) (hw : WGood P w) (index : Nat)
    (access : SubIndex) (s : St σ) (hs : QGood P s) :
    Safe P (sdoReadExpedited w cfg index access s) := by
  unfold sdoReadExpedited
  dsimp only
  have hsafe := mwr_safe P w cfg (uploadRequest (mailboxCounter s).1 index access) unpackSdoNormal
    (validateIdx index access.subIndex) (mailboxCounter s).2 hw hs unpackSdoNormal_noPanic
  generalize mailboxWriteRead w cfg (uploadRequest (mailboxCounter s).1 index access) unpackSdoNormal
    (validateIdx index access.subIndex) (mailboxCounter s).2 = r at hsafe
  obtain ⟨r1, s'⟩ := r
  obtain ⟨hnp, hq⟩ := hsafe
  cases r1 with
  | err e => exact ⟨rfl, hq⟩
  | panic why => simp at hnp
  | ok hd =>
    obtain ⟨h, data⟩ := hd
    dsimp only
    split
    · refine ⟨?_, hq⟩
      split <;> rfl
    · exact ⟨rfl, hq⟩

theorem readEach_safe {σ α : Type} (w : World σ) (cfg : Cfg) (P : DevInv σ) (hw : WGood P w) (fuel : Nat) (T : Dest α)
    (index : Nat) : ∀ (n i : Nat) (s : St σ), QGood P s →
      Safe P (readEach w cfg fuel T index n i s) := by
  intro n
  induction n with
  | zero => intro i s hs; exact ⟨rfl, hs⟩
  | succ n ih =>
    intro i s hs
    unfold readEach
    have h := sdoReadT_safe w cfg P hw fuel T index (.index i) s hs
    generalize sdoReadT w cfg fuel T index (.index i) s = r at h
    obtain ⟨r1, s'⟩ := r
    obtain ⟨hnp, hq⟩ := h
    cases r1 with
    | err e => exact ⟨rfl, hq⟩
    | panic why => simp at hnp
    | ok v =>
      dsimp only
      have h2 := ih (i + 1) s' hq
      generalize readEach w cfg fuel T index n (i + 1) s' = r2 at h2
      obtain ⟨r21, s''⟩ := r2
      obtain ⟨hnp2, hq2⟩ := h2
      cases r21 with
      | err e => exact ⟨rfl, hq2⟩
      | panic why => simp at hnp2
      | ok vs => exact ⟨rfl, hq2⟩

theorem sdoReadArray_safe {σ α : Type} (w : World σ) (cfg : Cfg) (P : DevInv σ) (hw : WGood P w) (fuel : Nat) (T : Dest α)
    (maxEntries index : Nat) (s : St σ) (hs : QGood P s) :
    Safe P (sdoReadArray w cfg fuel T maxEntries index s) := by
  unfold sdoReadArray
  have h := sdoReadT_safe w cfg P hw fuel destU8 index (.index 0) s hs
  generalize sdoReadT w cfg fuel destU8 index (.index 0) s = r at h
  obtain ⟨r1, s'⟩ := r
  obtain ⟨hnp, hq⟩ := h
  cases r1 with
  | err e => exact ⟨rfl, hq⟩
  | panic why => simp at hnp
  | ok len =>
    dsimp only
    split
    · exact ⟨rfl, hq⟩
    · exact readEach_safe w cfg P hw fuel T index len 1 s' hq

/-! ### Entry points: writes -/

theorem sdoWrite_safe {σ : Type} (w : World σ) (cfg : Cfg) (P : DevInv σ) (hw : WGood P w) (index : Nat)
    (access : SubIndex) (value : List Nat) (s : St σ) (hs : QGood P s) :
    Safe P (sdoWrite w cfg index access value s) := by
  unfold sdoWrite
  dsimp only
  split
  · exact ⟨rfl, hs⟩
  · have hsafe := mwr_safe P w cfg
      (downloadRequest (mailboxCounter s).1 index access (value ++ zeros (4 - value.length)) value.length)
      unpackSdoExpedited (validateIdx index access.subIndex) (mailboxCounter s).2 hw hs unpackSdoExpedited_noPanic
    generalize mailboxWriteRead w cfg
      (downloadRequest (mailboxCounter s).1 index access (value ++ zeros (4 - value.length)) value.length)
      unpackSdoExpedited (validateIdx index access.subIndex) (mailboxCounter s).2 = r at hsafe
    obtain ⟨r1, s'⟩ := r
    obtain ⟨hnp, hq⟩ := hsafe
    cases r1 with
    | err e => exact ⟨rfl, hq⟩
    | panic why => simp at hnp
    | ok hd => exact ⟨rfl, hq⟩

theorem writeEach_safe {σ : Type} (w : World σ) (cfg : Cfg) (P : DevInv σ) (hw : WGood P w) (index : Nat) :
    ∀ (vs : List (List Nat)) (i : Nat) (s : St σ), QGood P s →
      Safe P (writeEach w cfg index i vs s) := by
  intro vs
  induction vs with
  | nil => intro i s hs; exact ⟨rfl, hs⟩
  | cons v vs ih =>
    intro i s hs
    unfold writeEach
    have h := sdoWrite_safe w cfg P hw index (.index (i % 256)) v s hs
    generalize sdoWrite w cfg index (.index (i % 256)) v s = r at h
    obtain ⟨r1, s'⟩ := r
    obtain ⟨hnp, hq⟩ := h
    cases r1 with
    | err e => exact ⟨rfl, hq⟩
    | panic why => simp at hnp
    | ok u => exact ih (i + 1) s' hq

theorem sdoWriteArray_safe {σ : Type} (w : World σ) (cfg : Cfg) (P : DevInv σ) (hw : WGood P w) (index : Nat)
    (values : List (List Nat)) (s : St σ) (hs : QGood P s) :
    Safe P (sdoWriteArray w cfg index values s) := by
  unfold sdoWriteArray
  have h := sdoWrite_safe w cfg P hw index (.index 0) [0] s hs
  generalize sdoWrite w cfg index (.index 0) [0] s = r at h
  obtain ⟨r1, s'⟩ := r
  obtain ⟨hnp, hq⟩ := h
  cases r1 with
  | err e => exact ⟨rfl, hq⟩
  | panic why => simp at hnp
  | ok u =>
    dsimp only
    have h2 := writeEach_safe w cfg P hw index values 1 s' hq
    generalize writeEach w cfg index 1 values s' = r2 at h2
    obtain ⟨r21, s''⟩ := r2
    obtain ⟨hnp2, hq2⟩ := h2
    cases r21 with
    | err e => exact ⟨rfl, hq2⟩
    | panic why => simp at hnp2
    | ok u2 => exact sdoWrite_safe w cfg P hw index (.index 0) [values.length % 256] s'' hq2

end Ec.Coe
