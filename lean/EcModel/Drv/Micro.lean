/- Line protocol for micro-step schedules (C01, C02, C06 concurrency):
   `<key> <n> <data> <fi> <pi> <thread>|<thread>|... <sched>`  thread = `op;op;...` (or `-`),
   sched = comma-separated thread ids / `a<us>` clock advances.
   Answer: `<fnv32 of the snapshot after every step, comma separated>|<results of thread 0>|...|<final snapshot>` -/
import EcModel.Micro
import EcModel.Drv.Util

namespace Ec.Drv.Micro
open Ec Ec.Micro

def runSched (w : MWorld) (sched : List String) : MWorld × List String × Bool :=
  sched.foldl (fun (acc : MWorld × List String × Bool) tok =>
    let (w, ds, ok) := acc
    if !ok then acc else
    if tok.startsWith "a" then
      let us := (tok.drop 1).toString.toNat?.getD 0
      let w' := { w with sys := { w.sys with now := w.sys.now + us } }
      (w', ds, true)
    else
      match step w (tok.toNat?.getD 999) with
      | some w' => (w', toString (fnv32 (snapshot w'.sys)) :: ds, true)
      | none => (w, "bad-sched" :: ds, false)) (w, [], true)

def handle (args : List String) : String :=
  match args with
  | [n, data, fi, pi, threads, sched] =>
    let s0 := Sys.init (Ec.Drv.nat! n) (Ec.Drv.nat! data)
    let s0 := { s0 with frameIdx := Ec.Drv.nat! fi, pduIdx := Ec.Drv.nat! pi }
    let ths := (threads.splitOn "|").map (fun p =>
      ({ prog := if p = "-" then [] else p.splitOn ";", pc := .idle, regs := [], outs := [] } : Thread))
    let r := runSched { sys := s0, threads := ths } (if sched = "-" then [] else sched.splitOn ",")
    let w := r.1
    String.intercalate "," r.2.1.reverse ++ "|" ++
      String.intercalate "|" (w.threads.map (fun t => String.intercalate ";" t.outs.reverse)) ++ "|" ++
      snapshot w.sys
  | _ => "bad-case"

end Ec.Drv.Micro
