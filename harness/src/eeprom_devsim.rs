//! C14, device level: the REAL `DeviceEeprom` (SII control / address / data registers, busy polling, the
//! `write_word` retry loop) driven through a real `MainDevice` over the simulated one-device segment
//! (`crate::sim`, `crate::exec`). No network.
//!
//! Protocol line `c14 proto <bits>`: bit i = the device refuses write attempt i with the command-error flag.
//! The answer is `attempts=<n>` (SII write commands the device saw); the Lean model's `writeWordProto` predicts it.
use crate::eeprom_gen as eg;
use crate::exec::{self, Net};
use crate::rng::Rng;
use crate::sim::esc::{Esc, SiiFault, SiiOp};
use crate::sim::Segment;
use crate::util::Report;
use core::time::Duration;
use ethercrab::error::Error;
use ethercrab::verif::eeprom as hook;
use ethercrab::{MainDeviceConfig, Timeouts};

const ADDR: u16 = 0x1000;

#[derive(Clone, Debug)]
pub struct ProtoCase {
    /// command-error answer per write attempt
    pub errs: Vec<bool>,
    /// busy status reads after the accepted command (None: never completes)
    pub busy: Option<u32>,
    pub word: u16,
    pub data: [u8; 2],
    pub chunk: usize,
}

pub struct ProtoResult {
    pub result: Result<(), Error>,
    pub attempts: usize,
    pub writes: Vec<(u32, [u8; 2])>,
    pub eeprom_after: Vec<u8>,
    pub stuck: bool,
}

fn timeouts() -> Timeouts {
    Timeouts { eeprom: Duration::from_millis(10), pdu: Duration::from_millis(1), wait_loop_delay: Duration::from_micros(50), ..Timeouts::default() }
}

pub fn run_proto(c: &ProtoCase, image: &[u8]) -> ProtoResult {
    let mut esc = Esc::blank();
    esc.set_station_address(ADDR);
    esc.eeprom = image.to_vec();
    esc.sii.chunk = c.chunk;
    for e in &c.errs {
        esc.sii.faults.push_back(if *e {
            SiiFault::CommandError
        } else {
            match c.busy {
                Some(k) => SiiFault::Busy(k),
                None => SiiFault::BusyForever,
            }
        });
    }
    let (mut net, md) = Net::new(Segment::line(vec![esc]), 4, 128, timeouts(), MainDeviceConfig::default());
    net.step_limit = 200_000;
    let prov = hook::DeviceEeprom::new(md, ADDR);
    let mut range = hook::range_new(prov, c.word, 1);
    let data = c.data;
    let r = exec::run(&mut net, async move { hook::range_write_all(&mut range, &data).await });
    let seg = unsafe { net.recycle() };
    let esc = &seg.devices[0];
    let attempts = esc.sii.ops.iter().filter(|o| matches!(o, SiiOp::Write(..) | SiiOp::Refused(_))).count();
    let writes = esc.sii.ops.iter().filter_map(|o| if let SiiOp::Write(a, d) = o { Some((*a, *d)) } else { None }).collect();
    match r {
        Ok(result) => ProtoResult { result, attempts, writes, eeprom_after: esc.eeprom.clone(), stuck: false },
        Err(_) => ProtoResult { result: Err(Error::Internal), attempts, writes, eeprom_after: esc.eeprom.clone(), stuck: true },
    }
}

fn bits(errs: &[bool]) -> String {
    if errs.is_empty() { "0".into() } else { errs.iter().map(|b| if *b { '1' } else { '0' }).collect() }
}

pub fn run_and_check(c: &ProtoCase, rep: &mut Report) {
    let line = format!("c14 proto {}", bits(&c.errs));
    let image: Vec<u8> = (0..256u32).map(|i| (i * 7 + 3) as u8).collect();
    let r = run_proto(c, &image);
    let leading = c.errs.iter().take_while(|b| **b).count();
    let all_err = leading == c.errs.len();
    // the device script is exhausted after `errs.len()` commands: further attempts are accepted normally
    let expect_attempts = 1 + leading.min(20);
    if r.stuck {
        eg::fail(rep, "c14/write-word-stuck", "write_word neither finished nor timed out within the step limit", &line);
    }
    if r.attempts > 21 {
        eg::fail(rep, "c14/write-retry-unbounded", &format!("{} write attempts for one word (bound: 1 + 20 retries)", r.attempts), &line);
    }
    let busy_forever = c.busy.is_none() && !all_err && leading <= 20;
    if !busy_forever && r.attempts != expect_attempts {
        eg::fail(rep, "c14/write-retry-count", &format!("{} attempts, expected 1 + min({leading}, 20) = {expect_attempts}", r.attempts), &line);
    }
    let stored = r.writes.last().map(|w| *w == (c.word as u32, c.data)).unwrap_or(false) && r.writes.len() == 1;
    if busy_forever {
        if !matches!(r.result, Err(Error::Timeout(_))) {
            eg::fail(rep, "c14/write-busy-no-timeout", &format!("device stays busy but write_word returned {:?}", r.result), &line);
        }
        rep.hit("proto-busy-forever");
    } else if leading > 20 {
        // all 21 attempts refused: nothing was stored
        if r.result.is_ok() && r.writes.is_empty() {
            eg::fail(rep, "c14/write-retry-exhausted-reports-ok",
                "write_word returns Ok(()) after 21 refused attempts (command error still set): the word was never stored",
                &line,
            );
        }
        rep.hit("proto-exhausted");
    } else {
        if r.result != Ok(()) {
            eg::fail(rep, "c14/write-word-failed", &format!("write_word returned {:?} although attempt {} was accepted", r.result, leading + 1), &line);
        }
        if !stored {
            eg::fail(rep, "c14/write-word-not-stored", &format!("device writes {:?}, expected exactly one of word {} := {:02x?}", r.writes, c.word, c.data), &line);
        }
        // nothing else in the EEPROM array changed
        let mut exp = image.clone();
        let a = 2 * c.word as usize;
        if a + 2 <= exp.len() {
            exp[a] = c.data[0];
            exp[a + 1] = c.data[1];
        }
        if r.eeprom_after != exp {
            eg::fail(rep, "c14/write-word-memory", "EEPROM array differs from the expected single-word change", &line);
        }
        rep.hit(&format!("proto-errors-{}", if leading == 0 { "0".to_string() } else if leading < 20 { "1..19".to_string() } else { "20".to_string() }));
    }
    rep.nontrivial.insert(format!("{}:{:?}", line, c.busy));
    rep.case(line, format!("attempts={}", if busy_forever { expect_attempts } else { r.attempts }));
}

pub fn run_proto_line(line: &str, rep: &mut Report) {
    let t: Vec<&str> = line.split(' ').collect();
    let errs: Vec<bool> = t.get(2).unwrap_or(&"0").chars().map(|c| c == '1').collect();
    run_and_check(&ProtoCase { errs, busy: Some(0), word: 4, data: [0xcd, 0xab], chunk: 4 }, rep);
}

pub fn run(tier: &str, rng: &mut Rng, rep: &mut Report) {
    // 0..25 command errors, then an accepting device (busy 0..3 polls)
    for k in 0..=25usize {
        let mut errs = vec![true; k];
        errs.push(false);
        run_and_check(&ProtoCase { errs, busy: Some((k % 4) as u32), word: (k as u16) * 3 + 1, data: [k as u8, 0xa5], chunk: if k % 2 == 0 { 4 } else { 8 } }, rep);
    }
    // a device that keeps refusing
    for k in [21usize, 22, 25, 30] {
        run_and_check(&ProtoCase { errs: vec![true; k], busy: Some(0), word: 5, data: [1, 2], chunk: 4 }, rep);
    }
    // a device that stays busy after 0..3 refusals
    for k in 0..=3usize {
        let mut errs = vec![true; k];
        errs.push(false);
        run_and_check(&ProtoCase { errs, busy: None, word: 9, data: [3, 4], chunk: 8 }, rep);
    }
    let n = if tier == "thorough" { 400 } else { 40 };
    for _ in 0..n {
        let k = rng.range(0, 25) as usize;
        let mut errs = vec![true; k];
        // random tail: the loop must stop at the first accepted attempt whatever follows
        errs.push(false);
        for _ in 0..rng.below(4) {
            errs.push(rng.chance(1, 2));
        }
        let busy = if rng.chance(1, 10) { None } else { Some(rng.below(6) as u32) };
        run_and_check(&ProtoCase { errs, busy, word: rng.range(0, 120) as u16, data: [rng.byte(), rng.byte()], chunk: if rng.chance(1, 2) { 4 } else { 8 } }, rep);
    }
}
