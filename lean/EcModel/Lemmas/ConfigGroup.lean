/-
  Helper lemmas for C08 (3/3): one direction on one device (`configureFmmus`), both directions on one device,
  the two passes of a group, group start addresses.
-/
import EcModel.Lemmas.ConfigLoops

namespace Ec.Config
open Ec

/-! ### enumerate -/

theorem mem_enumFrom {α : Type} {n : Nat} {l : List α} {x : Nat × α} (h : x ∈ enumFrom n l) :
    n ≤ x.1 ∧ x.1 < n + l.length := by
  induction l generalizing n with
  | nil => simp [enumFrom] at h
  | cons a rest ih =>
    simp only [enumFrom, List.mem_cons] at h
    rcases h with rfl | h
    · simp
    · have := ih h
      simp only [List.length_cons]; omega

theorem enumFrom_nodup {α : Type} (n : Nat) (l : List α) : ((enumFrom n l).map (·.1)).Nodup := by
  induction l generalizing n with
  | nil => simp [enumFrom]
  | cons a rest ih =>
    simp only [enumFrom, List.map, List.nodup_cons]
    refine ⟨?_, ih (n + 1)⟩
    intro h
    obtain ⟨x, hx, hx1⟩ := List.mem_map.1 h
    have := mem_enumFrom hx
    omega

theorem dirFilter_sub (dir : Dir) (L : List (Nat × SmDesc)) : ∀ x ∈ dirFilter dir L, x ∈ L ∧ x.2.usageType = dir.smType := by
  intro x hx
  simp only [dirFilter, List.mem_filter, beq_iff_eq] at hx
  exact hx

theorem dirFilter_nodup (dir : Dir) (L : List (Nat × SmDesc)) (h : (L.map (·.1)).Nodup) :
    ((dirFilter dir L).map (·.1)).Nodup := by
  unfold dirFilter
  exact (List.filter_sublist (l := L)).map (·.1) |>.nodup h

/-! ### one direction on one device -/

def DevState.window (st : DevState) : Dir → Nat × Nat
  | .input => st.input
  | .output => st.output

def Dir.other : Dir → Dir
  | .input => .output
  | .output => .input

/-- PDO list of the EEPROM path for a direction. -/
def Device.pdos (d : Device) : Dir → List Pdo
  | .input => d.txPdos
  | .output => d.rxPdos

/-- Register file after one direction's pass, as a pure fold over the jobs. -/
def phaseRegs (d : Device) (hasCoe : Bool) (dir : Dir) (jobs : List Job) (r : Regs) (off : Nat) : Regs :=
  if hasCoe then (coePure dir.smType ((position dir.fmmuType d.fmmuUsage).getD 0) jobs r off).1
  else (eepromPure dir.smType jobs r off).1

theorem smType_cases (dir : Dir) : dir.smType = 3 ∨ dir.smType = 4 := by cases dir <;> simp [Dir.smType]

theorem phase_spec {d : Device} {st st' : DevState} {off off' gs : Nat} {dir : Dir}
    (hfresh : st.hasCoe = false →
      ∀ x ∈ enumFrom 0 d.sms, x.2.usageType = dir.smType → (st.regs.fmmu x.1).enable = false)
    (h : configureFmmus .checked d st off gs dir = .ok (off', st')) :
    ∃ jobs : List Job,
      jobs.map (fun j => (j.i, j.sm)) = dirFilter dir (enumFrom 0 d.sms) ∧
      (∀ j ∈ jobs, j.lb = (smBitsSpec d st.hasCoe dir j.i + 7) / 8) ∧
      (st.hasCoe = true → ∀ j ∈ jobs, j.lb ≠ 0 → ∃ fi, position dir.fmmuType d.fmmuUsage = some fi) ∧
      off' = off + jobLens jobs ∧ gs ≤ off ∧
      st'.window dir = (off - gs, off' - gs) ∧ st'.window dir.other = st.window dir.other ∧
      st'.hasCoe = st.hasCoe ∧ d.sms.length ≤ 8 ∧
      st'.regs = phaseRegs d st.hasCoe dir jobs st.regs off := by
  unfold configureFmmus at h
  by_cases hcap : d.sms.length > 8
  · simp [hcap] at h
  · rw [if_neg hcap] at h
    obtain ⟨p, hp, h⟩ := bind_eq_ok.1 h
    obtain ⟨s, hs, h⟩ := bind_eq_ok.1 h
    obtain ⟨e, he, h⟩ := bind_eq_ok.1 h
    obtain ⟨hs1, rfl⟩ := subWrap_ok.1 hs
    obtain ⟨he1, rfl⟩ := subWrap_ok.1 he
    simp only [Outcome.ok.injEq, Prod.mk.injEq] at h
    obtain ⟨rfl, hst⟩ := h
    cases hc : st.hasCoe with
    | true =>
      simp only [hc, if_true] at hp
      obtain ⟨jobs, h1, h2, h3, h4⟩ := coeLoop_pure _ _ _ _ hp
      refine ⟨jobs, h1, ?_, fun _ => h3, ?_, hs1, ?_, ?_, ?_, by omega, ?_⟩
      · intro j hj; simp [smBitsSpec, h2 j hj]
      · rw [← h4, coePure_off]
      · subst hst; cases dir <;> simp [DevState.window]
      · subst hst; cases dir <;> simp [DevState.window, Dir.other]
      · subst hst; cases dir <;> simp [hc]
      · subst hst; cases dir <;> simp [phaseRegs, h4]
    | false =>
      simp only [hc, Bool.false_eq_true, if_false] at hp
      have hf := hfresh hc
      have hp' : eepromLoop .checked d dir (d.pdos dir) (enumFrom 0 d.sms) st.regs off = .ok p := by
        cases dir <;> simpa [Device.pdos] using hp
      obtain ⟨jobs, h1, h2, h4⟩ := eepromLoop_pure _ _ _ _ hf (enumFrom_nodup 0 d.sms) hp'
      refine ⟨jobs, h1, ?_, by simp, ?_, hs1, ?_, ?_, ?_, by omega, ?_⟩
      · intro j hj
        rw [h2 j hj]; cases dir <;> simp [smBitsSpec, Device.pdos]
      · rw [← h4, eepromPure_off]
      · subst hst; cases dir <;> simp [DevState.window]
      · subst hst; cases dir <;> simp [DevState.window, Dir.other]
      · subst hst; cases dir <;> simp [hc]
      · subst hst; cases dir <;> simp [phaseRegs, h4]


/-! ### what the entities written by one pass do -/

/-- The FMMU entities written by one pass, abstracting over the two paths: `used` is the set of entities,
    `cnt` the number of entities the controller evaluates. -/
structure PhaseOut (ty cnt : Nat) (used : Nat → Prop) (r r' : Regs) (off : Nat) (jobs : List Job) : Prop where
  fmmu_frame : ∀ k, ¬ used k → r'.fmmu k = r.fmmu k
  sm_frame : ∀ k, k ∉ jobs.map (·.i) → r'.sm k = r.sm k
  sm_at : ∀ j ∈ jobs, r'.sm j.i = j.cfg
  own_dir : ∀ k, used k → ∀ w a p, (r'.fmmu k).hit w a = some p → w = (ty == 3)
  aligned : ∀ k, used k → (r'.fmmu k).startBit = 0 ∧ (r'.fmmu k).endBit = 7 ∧ (r'.fmmu k).physBit = 0
  hit : ∀ w a p, (∃ k, used k ∧ k < cnt ∧ (r'.fmmu k).hit w a = some p) ↔
      (w = (ty == 3) ∧ off ≤ a ∧ a < off + jobLens jobs ∧ physAt (jobWindows jobs) (a - off) = some p)

theorem phaseOut_eeprom {ty cnt : Nat} (hty : ty = 3 ∨ ty = 4) (jobs : List Job) (r : Regs) (off : Nat)
    (hnd : (jobs.map (·.i)).Nodup) (havail : ∀ j ∈ jobs, j.i < cnt) :
    PhaseOut ty cnt (fun k => k ∈ jobs.map (·.i)) r (eepromPure ty jobs r off).1 off jobs where
  fmmu_frame := fun k hk => eepromPure_fmmu_frame ty jobs r off k hk
  sm_frame := fun k hk => eepromPure_sm_frame ty jobs r off k hk
  sm_at := eepromPure_sm_at ty jobs r off hnd
  own_dir := by
    intro k hk w a p hh
    obtain ⟨j, hj, rfl⟩ := List.mem_map.1 hk
    obtain ⟨o, ho⟩ := eepromPure_fmmu_at ty jobs r off hnd j hj
    rw [ho] at hh
    exact ((freshFmmu_hit hty).1 hh).1
  aligned := by
    intro k hk
    obtain ⟨j, hj, rfl⟩ := List.mem_map.1 hk
    obtain ⟨o, ho⟩ := eepromPure_fmmu_at ty jobs r off hnd j hj
    rw [ho]; simp [freshFmmu]
  hit := by
    intro w a p
    rw [← eepromPure_hit hty jobs r off hnd w a p]
    constructor
    · rintro ⟨k, hk, _, hh⟩
      obtain ⟨j, hj, rfl⟩ := List.mem_map.1 hk
      exact ⟨j, hj, hh⟩
    · rintro ⟨j, hj, hh⟩
      exact ⟨j.i, List.mem_map_of_mem hj, havail j hj, hh⟩

theorem coePure_nojobs (ty fi : Nat) : ∀ (jobs : List Job) (r : Regs) (off : Nat),
    jobLens jobs = 0 → (coePure ty fi jobs r off).1.fmmu = r.fmmu := by
  intro jobs
  induction jobs with
  | nil => intro r off _; simp [coePure]
  | cons j rest ih =>
    intro r off h
    have hl : jobLens (j :: rest) = j.lb + jobLens rest := by simp [jobLens, natSum]
    have h0 : j.lb = 0 := by omega
    simp only [coePure, h0, if_true]
    rw [ih _ _ (by omega)]; simp

theorem phaseOut_coe {ty cnt fi : Nat} (hty : ty = 3 ∨ ty = 4) (jobs : List Job) (r : Regs) (off : Nat)
    (hnd : (jobs.map (·.i)).Nodup) (hd : jobLens jobs ≠ 0 → (r.fmmu fi).enable = false)
    (havail : jobLens jobs ≠ 0 → fi < cnt) (hc : ∃ s, Contig s (jobWindows jobs)) :
    PhaseOut ty cnt (fun k => k = fi ∧ jobLens jobs ≠ 0) r (coePure ty fi jobs r off).1 off jobs where
  fmmu_frame := by
    intro k hk
    by_cases h0 : jobLens jobs = 0
    · rw [coePure_nojobs _ _ _ _ _ h0]
    · have : k ≠ fi := fun e => hk ⟨e, h0⟩
      exact coePure_fmmu_frame ty fi jobs r off k this
  sm_frame := fun k hk => coePure_sm_frame ty fi jobs r off k hk
  sm_at := coePure_sm_at ty fi jobs r off hnd
  own_dir := by
    rintro k ⟨rfl, h0⟩ w a p hh
    obtain ⟨s, hs⟩ := hc
    exact ((coePure_hit hty jobs r off s (hd h0) hs w a p).1 hh).1
  aligned := by
    rintro k ⟨rfl, h0⟩
    rw [coePure_disabled _ _ _ _ _ (hd h0), if_neg h0]; simp
  hit := by
    intro w a p
    obtain ⟨s, hs⟩ := hc
    constructor
    · rintro ⟨k, ⟨rfl, h0⟩, _, hh⟩
      exact (coePure_hit hty jobs r off s (hd h0) hs w a p).1 hh
    · rintro ⟨h1, h2, h3, h4⟩
      have h0 : jobLens jobs ≠ 0 := by omega
      exact ⟨fi, ⟨rfl, h0⟩, havail h0, (coePure_hit hty jobs r off s (hd h0) hs w a p).2 ⟨h1, h2, h3, h4⟩⟩

/-! ### both directions on one device -/

theorem mem_fmmuMap {fm : Nat → Fmmu} {cnt : Nat} {w : Bool} {a p : Nat} :
    p ∈ fmmuMap fm cnt w a ↔ ∃ k, k < min cnt 16 ∧ (fm k).hit w a = some p := by
  simp [fmmuMap, List.mem_filterMap, List.mem_range]

theorem hit_disabled {f : Fmmu} (h : f.enable = false) (w : Bool) (a : Nat) : f.hit w a = none := by
  simp [Fmmu.hit, h]

/-- Inputs pass then outputs pass over a register file whose FMMUs were all disabled. -/
theorem two_phase {cnt : Nat} {uIn uOut : Nat → Prop} {r0 r1 r2 : Regs} {a c : Nat} {inJobs outJobs : List Job}
    (h0 : ∀ k, (r0.fmmu k).enable = false)
    (pin : PhaseOut 4 cnt uIn r0 r1 a inJobs) (pout : PhaseOut 3 cnt uOut r1 r2 c outJobs)
    (hdisj : ∀ k, uIn k → ¬ uOut k) :
    (∀ x p, (∃ k, k < cnt ∧ (r2.fmmu k).hit false x = some p) ↔
        (a ≤ x ∧ x < a + jobLens inJobs ∧ physAt (jobWindows inJobs) (x - a) = some p)) ∧
    (∀ x p, (∃ k, k < cnt ∧ (r2.fmmu k).hit true x = some p) ↔
        (c ≤ x ∧ x < c + jobLens outJobs ∧ physAt (jobWindows outJobs) (x - c) = some p)) ∧
    (∀ k, (r2.fmmu k).enable = true →
        (r2.fmmu k).startBit = 0 ∧ (r2.fmmu k).endBit = 7 ∧ (r2.fmmu k).physBit = 0) := by
  refine ⟨?_, ?_, ?_⟩
  · intro x p
    constructor
    · rintro ⟨k, hk, hh⟩
      by_cases ho : uOut k
      · have := pout.own_dir k ho false x p hh
        simp at this
      · rw [pout.fmmu_frame k ho] at hh
        by_cases hi : uIn k
        · have := (pin.hit false x p).1 ⟨k, hi, hk, hh⟩
          exact ⟨this.2.1, this.2.2.1, this.2.2.2⟩
        · rw [pin.fmmu_frame k hi, hit_disabled (h0 k)] at hh
          simp at hh
    · rintro ⟨h1, h2, h3⟩
      obtain ⟨k, hi, hk, hh⟩ := (pin.hit false x p).2 ⟨by simp, h1, h2, h3⟩
      exact ⟨k, hk, by rw [pout.fmmu_frame k (hdisj k hi)]; exact hh⟩
  · intro x p
    constructor
    · rintro ⟨k, hk, hh⟩
      by_cases ho : uOut k
      · have := (pout.hit true x p).1 ⟨k, ho, hk, hh⟩
        exact ⟨this.2.1, this.2.2.1, this.2.2.2⟩
      · rw [pout.fmmu_frame k ho] at hh
        by_cases hi : uIn k
        · have := pin.own_dir k hi true x p hh
          simp at this
        · rw [pin.fmmu_frame k hi, hit_disabled (h0 k)] at hh
          simp at hh
    · rintro ⟨h1, h2, h3⟩
      obtain ⟨k, ho, hk, hh⟩ := (pout.hit true x p).2 ⟨by simp, h1, h2, h3⟩
      exact ⟨k, hk, hh⟩
  · intro k he
    by_cases ho : uOut k
    · exact pout.aligned k ho
    · rw [pout.fmmu_frame k ho] at he ⊢
      by_cases hi : uIn k
      · exact pin.aligned k hi
      · rw [pin.fmmu_frame k hi, h0 k] at he
        simp at he


/-! ### bookkeeping about jobs -/

theorem enumFrom_inj {α : Type} {n : Nat} {l : List α} {x y : Nat × α}
    (hx : x ∈ enumFrom n l) (hy : y ∈ enumFrom n l) (h : x.1 = y.1) : x = y := by
  induction l generalizing n with
  | nil => simp [enumFrom] at hx
  | cons a rest ih =>
    simp only [enumFrom, List.mem_cons] at hx hy
    rcases hx with rfl | hx <;> rcases hy with rfl | hy
    · rfl
    · have := mem_enumFrom hy; simp at h; omega
    · have := mem_enumFrom hx; simp at h; omega
    · exact ih hx hy

theorem job_mem {dir : Dir} {E : List (Nat × SmDesc)} {jobs : List Job}
    (hj : jobs.map (fun j => (j.i, j.sm)) = dirFilter dir E) {j : Job} (h : j ∈ jobs) :
    (j.i, j.sm) ∈ E ∧ j.sm.usageType = dir.smType := by
  have : (j.i, j.sm) ∈ dirFilter dir E := by rw [← hj]; exact List.mem_map_of_mem (f := fun j => (j.i, j.sm)) h
  exact dirFilter_sub dir E _ this

theorem jobs_idx {dir : Dir} {E : List (Nat × SmDesc)} {jobs : List Job}
    (hj : jobs.map (fun j => (j.i, j.sm)) = dirFilter dir E) :
    jobs.map (·.i) = (dirFilter dir E).map (·.1) := by
  rw [← hj, List.map_map]; rfl

theorem jobs_nodup {dir : Dir} {l : List SmDesc} {jobs : List Job}
    (hj : jobs.map (fun j => (j.i, j.sm)) = dirFilter dir (enumFrom 0 l)) : (jobs.map (·.i)).Nodup := by
  rw [jobs_idx hj]; exact dirFilter_nodup dir _ (enumFrom_nodup 0 l)

theorem jobs_disjoint {l : List SmDesc} {inJobs outJobs : List Job}
    (hi : inJobs.map (fun j => (j.i, j.sm)) = dirFilter .input (enumFrom 0 l))
    (ho : outJobs.map (fun j => (j.i, j.sm)) = dirFilter .output (enumFrom 0 l)) :
    ∀ k, k ∈ inJobs.map (·.i) → k ∉ outJobs.map (·.i) := by
  intro k hk hk'
  obtain ⟨j, hj, rfl⟩ := List.mem_map.1 hk
  obtain ⟨j', hj', e⟩ := List.mem_map.1 hk'
  obtain ⟨m1, t1⟩ := job_mem hi hj
  obtain ⟨m2, t2⟩ := job_mem ho hj'
  have := enumFrom_inj m2 m1 e
  simp only [Prod.mk.injEq] at this
  rw [this.2] at t2
  rw [t1] at t2
  simp [Dir.smType] at t2

theorem smRanges_eq_jobs {d : Device} {r : Regs} {dir : Dir} {jobs : List Job}
    (hj : jobs.map (fun j => (j.i, j.sm)) = dirFilter dir (enumFrom 0 d.sms))
    (hs : ∀ j ∈ jobs, r.sm j.i = j.cfg) : smRanges d r dir = jobWindows jobs := by
  have : smRanges d r dir = (dirFilter dir (enumFrom 0 d.sms)).map fun x => smWindow (r.sm x.1) := rfl
  rw [this, ← hj, List.map_map]
  unfold jobWindows
  apply List.map_congr_left
  intro j hj'
  simp [smWindow, hs j hj', Job.cfg]

theorem windowLenSpec_eq_jobs {d : Device} {coe : Bool} {dir : Dir} {jobs : List Job}
    (hj : jobs.map (fun j => (j.i, j.sm)) = dirFilter dir (enumFrom 0 d.sms))
    (hl : ∀ j ∈ jobs, j.lb = (smBitsSpec d coe dir j.i + 7) / 8) : windowLenSpec d coe dir = jobLens jobs := by
  have : windowLenSpec d coe dir =
      natSum ((dirFilter dir (enumFrom 0 d.sms)).map fun x => (smBitsSpec d coe dir x.1 + 7) / 8) := rfl
  rw [this, ← hj, List.map_map]
  unfold jobLens
  congr 1
  apply List.map_congr_left
  intro j hj'
  simp [hl j hj']

theorem jobLens_ne_zero {jobs : List Job} (h : jobLens jobs ≠ 0) : ∃ j ∈ jobs, j.lb ≠ 0 := by
  induction jobs with
  | nil => simp [jobLens, natSum] at h
  | cons j rest ih =>
    have hl : jobLens (j :: rest) = j.lb + jobLens rest := by simp [jobLens, natSum]
    by_cases h0 : j.lb = 0
    · obtain ⟨j', hj', hne⟩ := ih (by omega)
      exact ⟨j', by simp [hj'], hne⟩
    · exact ⟨j, by simp, h0⟩

theorem position_get {t : Nat} : ∀ {l : List Nat} {i : Nat}, position t l = some i → l[i]? = some t := by
  intro l
  induction l with
  | nil => intro i h; simp [position] at h
  | cons x rest ih =>
    intro i h
    simp only [position] at h
    by_cases hx : x = t
    · rw [if_pos hx] at h
      simp at h; subst h; simp [hx]
    · rw [if_neg hx] at h
      cases hp : position t rest with
      | none => simp [hp] at h
      | some k =>
        simp [hp] at h
        subst h
        simpa using ih hp

theorem position_ne {l : List Nat} {i j : Nat} (hi : position 2 l = some i) (hj : position 1 l = some j) : i ≠ j := by
  intro e
  have h1 := position_get hi
  have h2 := position_get hj
  rw [e, h2] at h1
  simp at h1

/-! ### hypotheses of the exact-mapping theorem -/

/-- Every FMMU entity the MainDevice programs exists in the controller. EEPROM path: entity number = sync
    manager number; CoE path: entity number = position in the device's own FMMU usage list. -/
def FmmuAvail (d : Device) (hasCoe : Bool) : Prop :=
  if hasCoe then ∀ t fi, position t d.fmmuUsage = some fi → fi < min d.fmmuCount 16
  else ∀ x ∈ enumFrom 0 d.sms, (x.2.usageType = 3 ∨ x.2.usageType = 4) → x.1 < min d.fmmuCount 16

/-- CoE path only: the sync managers of one direction — which all go through ONE FMMU — are physically
    contiguous (each non-empty one starts where the previous non-empty one ends). -/
def SharedContig (d : Device) (r : Regs) (hasCoe : Bool) : Prop :=
  hasCoe = true → (∃ s, Contig s (smRanges d r .input)) ∧ (∃ s, Contig s (smRanges d r .output))

theorem le_natSum_of_mem {l : List Nat} {x : Nat} (h : x ∈ l) : x ≤ natSum l := by
  induction l with
  | nil => simp at h
  | cons y rest ih =>
    simp only [natSum]
    rcases List.mem_cons.1 h with rfl | h
    · omega
    · have := ih h; omega

/-- Everything the two passes do to one device. -/
theorem device_spec {d : Device} {st0 st1 st2 : DevState} {a b c e gs : Nat}
    (h0 : ∀ k, (st0.regs.fmmu k).enable = false)
    (h1 : configureFmmus .checked d st0 a gs .input = .ok (b, st1))
    (h2 : configureFmmus .checked d st1 c gs .output = .ok (e, st2)) :
    gs ≤ a ∧ gs ≤ c ∧ a ≤ b ∧ c ≤ e ∧
    st2.input = (a - gs, b - gs) ∧ st2.output = (c - gs, e - gs) ∧ st2.hasCoe = st0.hasCoe ∧
    b - a = windowLenSpec d st0.hasCoe .input ∧ e - c = windowLenSpec d st0.hasCoe .output ∧
    rangesLen (smRanges d st2.regs .input) = b - a ∧ rangesLen (smRanges d st2.regs .output) = e - c ∧
    (∀ x ∈ enumFrom 0 d.sms, ∀ dir : Dir, x.2.usageType = dir.smType →
        (st2.regs.sm x.1).len = (smBitsSpec d st0.hasCoe dir x.1 + 7) / 8) ∧
    (∀ k, (st2.regs.fmmu k).enable = true →
        (st2.regs.fmmu k).startBit = 0 ∧ (st2.regs.fmmu k).endBit = 7 ∧ (st2.regs.fmmu k).physBit = 0) ∧
    (FmmuAvail d st0.hasCoe → SharedContig d st2.regs st0.hasCoe →
      ∀ x p,
        (p ∈ fmmuMap st2.regs.fmmu d.fmmuCount false x ↔
          a ≤ x ∧ x < b ∧ physAt (smRanges d st2.regs .input) (x - a) = some p) ∧
        (p ∈ fmmuMap st2.regs.fmmu d.fmmuCount true x ↔
          c ≤ x ∧ x < e ∧ physAt (smRanges d st2.regs .output) (x - c) = some p)) := by
  obtain ⟨inJobs, i1, i2, i3, i4, i5, i6, i7, i8, _, i10⟩ := phase_spec (fun _ x _ _ => h0 x.1) h1
  have hndI := jobs_nodup i1
  -- freshness for the second pass (EEPROM path)
  have hfresh2 : st1.hasCoe = false →
      ∀ x ∈ enumFrom 0 d.sms, x.2.usageType = Dir.output.smType → (st1.regs.fmmu x.1).enable = false := by
    intro hc x hx hxt
    rw [i8] at hc
    rw [i10]; simp only [phaseRegs, hc, Bool.false_eq_true, if_false]
    rw [eepromPure_fmmu_frame]
    · exact h0 x.1
    · intro hk
      obtain ⟨j, hj, e⟩ := List.mem_map.1 hk
      obtain ⟨m1, t1⟩ := job_mem i1 hj
      have := enumFrom_inj m1 hx e
      have t2 : x.2.usageType = 4 := by rw [← this]; simpa [Dir.smType] using t1
      rw [t2] at hxt; simp [Dir.smType] at hxt
  obtain ⟨outJobs, o1, o2, o3, o4, o5, o6, o7, o8, _, o10⟩ := phase_spec hfresh2 h2
  rw [i8] at o2 o3 o10
  have hndO := jobs_nodup o1
  have hdisj := jobs_disjoint i1 o1
  -- sync manager registers after both passes
  have smI : ∀ j ∈ inJobs, st2.regs.sm j.i = j.cfg := by
    intro j hj
    have hni : j.i ∉ outJobs.map (·.i) := hdisj j.i (List.mem_map_of_mem hj)
    rw [o10, i10]
    cases hc : st0.hasCoe with
    | true =>
      simp only [phaseRegs, if_true]
      rw [coePure_sm_frame _ _ _ _ _ _ hni]; exact coePure_sm_at _ _ _ _ _ hndI j hj
    | false =>
      simp only [phaseRegs, Bool.false_eq_true, if_false]
      rw [eepromPure_sm_frame _ _ _ _ _ hni]; exact eepromPure_sm_at _ _ _ _ hndI j hj
  have smO : ∀ j ∈ outJobs, st2.regs.sm j.i = j.cfg := by
    intro j hj
    rw [o10]
    cases hc : st0.hasCoe with
    | true => simp only [phaseRegs, if_true]; exact coePure_sm_at _ _ _ _ _ hndO j hj
    | false => simp only [phaseRegs, Bool.false_eq_true, if_false]; exact eepromPure_sm_at _ _ _ _ hndO j hj
  have rI := smRanges_eq_jobs i1 smI
  have rO := smRanges_eq_jobs o1 smO
  have wI : st2.input = (a - gs, b - gs) := by
    have : st2.window Dir.output.other = st1.window Dir.output.other := o7
    simp only [Dir.other, DevState.window] at this
    rw [this]; simpa [DevState.window] using i6
  have wO : st2.output = (c - gs, e - gs) := by simpa [DevState.window] using o6
  refine ⟨i5, o5, by omega, by omega, wI, wO, by rw [o8, i8], ?_, ?_, ?_, ?_, ?_, ?_⟩
  · rw [windowLenSpec_eq_jobs i1 i2]; omega
  · rw [windowLenSpec_eq_jobs o1 o2]; omega
  · rw [rI, rangesLen_jobWindows]; omega
  · rw [rO, rangesLen_jobWindows]; omega
  · -- every process-data sync manager holds exactly its own byte length
    intro x hx dir hxt
    cases dir with
    | input =>
      have hm : x ∈ dirFilter .input (enumFrom 0 d.sms) := List.mem_filter.2 ⟨hx, by simpa using hxt⟩
      rw [← i1] at hm
      obtain ⟨j, hj, rfl⟩ := List.mem_map.1 hm
      rw [smI j hj]
      exact i2 j hj
    | output =>
      have hm : x ∈ dirFilter .output (enumFrom 0 d.sms) := List.mem_filter.2 ⟨hx, by simpa using hxt⟩
      rw [← o1] at hm
      obtain ⟨j, hj, rfl⟩ := List.mem_map.1 hm
      rw [smO j hj]
      exact o2 j hj
  · -- alignment and exact mapping
    cases hc : st0.hasCoe with
    | false =>
      simp only [hc, phaseRegs, Bool.false_eq_true, if_false] at i10 o10
      -- alignment does not need the availability hypothesis: use cnt = anything for which jobs are below
      have alg : ∀ k, (st2.regs.fmmu k).enable = true →
          (st2.regs.fmmu k).startBit = 0 ∧ (st2.regs.fmmu k).endBit = 7 ∧ (st2.regs.fmmu k).physBit = 0 := by
        have pin := phaseOut_eeprom (ty := 4) (cnt := natSum (inJobs.map (·.i)) + natSum (outJobs.map (·.i)) + 1)
          (Or.inr rfl) inJobs st0.regs a hndI (by
            intro j hj
            have := le_natSum_of_mem (List.mem_map_of_mem (f := (·.i)) hj)
            omega)
        have pout := phaseOut_eeprom (ty := 3) (cnt := natSum (inJobs.map (·.i)) + natSum (outJobs.map (·.i)) + 1)
          (Or.inl rfl) outJobs st1.regs c hndO (by
            intro j hj
            have := le_natSum_of_mem (List.mem_map_of_mem (f := (·.i)) hj)
            omega)
        simp only [Dir.smType] at i10 o10
        rw [← i10] at pin
        rw [← o10] at pout
        exact (two_phase h0 pin pout hdisj).2.2
      refine ⟨alg, ?_⟩
      intro hav _ x p
      have hav' : ∀ x ∈ enumFrom 0 d.sms, (x.2.usageType = 3 ∨ x.2.usageType = 4) → x.1 < min d.fmmuCount 16 := by
        simpa [FmmuAvail] using hav
      have pin := phaseOut_eeprom (ty := 4) (cnt := min d.fmmuCount 16) (Or.inr rfl) inJobs st0.regs a hndI (by
        intro j hj
        obtain ⟨m1, t1⟩ := job_mem i1 hj
        exact hav' _ m1 (Or.inr (by simpa [Dir.smType] using t1)))
      have pout := phaseOut_eeprom (ty := 3) (cnt := min d.fmmuCount 16) (Or.inl rfl) outJobs st1.regs c hndO (by
        intro j hj
        obtain ⟨m1, t1⟩ := job_mem o1 hj
        exact hav' _ m1 (Or.inl (by simpa [Dir.smType] using t1)))
      simp only [Dir.smType] at i10 o10
      rw [← i10] at pin
      rw [← o10] at pout
      obtain ⟨hr, hw, _⟩ := two_phase h0 pin pout hdisj
      rw [mem_fmmuMap, mem_fmmuMap, hr x p, hw x p, rI, rO, i4, o4]
      exact ⟨Iff.rfl, Iff.rfl⟩
    | true =>
      simp only [hc, phaseRegs, if_true, Dir.smType, Dir.fmmuType] at i10 o10
      have i3' := i3 hc
      have o3' := o3 hc
      simp only [Dir.fmmuType] at i3' o3'
      -- the two entities are different whenever both are used
      have hne : jobLens inJobs ≠ 0 → jobLens outJobs ≠ 0 →
          (position 2 d.fmmuUsage).getD 0 ≠ (position 1 d.fmmuUsage).getD 0 := by
        intro hi ho
        obtain ⟨j, hj, hjn⟩ := jobLens_ne_zero hi
        obtain ⟨j', hj', hjn'⟩ := jobLens_ne_zero ho
        obtain ⟨fi, hfi⟩ := i3' j hj hjn
        obtain ⟨fo, hfo⟩ := o3' j' hj' hjn'
        rw [hfi, hfo]; simpa using position_ne hfi hfo
      have hd2 : jobLens outJobs ≠ 0 → (st1.regs.fmmu ((position 1 d.fmmuUsage).getD 0)).enable = false := by
        intro ho
        rw [i10]
        by_cases hi : jobLens inJobs = 0
        · rw [coePure_nojobs _ _ _ _ _ hi]; exact h0 _
        · rw [coePure_fmmu_frame _ _ _ _ _ _ (hne hi ho).symm]; exact h0 _
      have hdj : ∀ k, (k = (position 2 d.fmmuUsage).getD 0 ∧ jobLens inJobs ≠ 0) →
          ¬ (k = (position 1 d.fmmuUsage).getD 0 ∧ jobLens outJobs ≠ 0) := by
        rintro k ⟨rfl, hi⟩ ⟨e, ho⟩
        exact hne hi ho e
      -- alignment: explicit form of the shared entity
      have alg : ∀ k, (st2.regs.fmmu k).enable = true →
          (st2.regs.fmmu k).startBit = 0 ∧ (st2.regs.fmmu k).endBit = 7 ∧ (st2.regs.fmmu k).physBit = 0 := by
        intro k hk
        rw [o10] at hk ⊢
        by_cases ho : jobLens outJobs = 0
        · rw [coePure_nojobs _ _ _ _ _ ho] at hk ⊢
          rw [i10] at hk ⊢
          by_cases hi : jobLens inJobs = 0
          · rw [coePure_nojobs _ _ _ _ _ hi, h0 k] at hk; simp at hk
          · by_cases hk2 : k = (position 2 d.fmmuUsage).getD 0
            · subst hk2
              rw [coePure_disabled _ _ _ _ _ (h0 _), if_neg hi]; simp
            · rw [coePure_fmmu_frame _ _ _ _ _ _ hk2, h0 k] at hk; simp at hk
        · by_cases hk1 : k = (position 1 d.fmmuUsage).getD 0
          · subst hk1
            rw [coePure_disabled _ _ _ _ _ (hd2 ho), if_neg ho]; simp
          · rw [coePure_fmmu_frame _ _ _ _ _ _ hk1] at hk ⊢
            rw [i10] at hk ⊢
            by_cases hi : jobLens inJobs = 0
            · rw [coePure_nojobs _ _ _ _ _ hi, h0 k] at hk; simp at hk
            · by_cases hk2 : k = (position 2 d.fmmuUsage).getD 0
              · subst hk2
                rw [coePure_disabled _ _ _ _ _ (h0 _), if_neg hi]; simp
              · rw [coePure_fmmu_frame _ _ _ _ _ _ hk2, h0 k] at hk; simp at hk
      refine ⟨alg, ?_⟩
      intro hav hcontig x p
      have hav' : ∀ t fi, position t d.fmmuUsage = some fi → fi < min d.fmmuCount 16 := by
        simpa [FmmuAvail] using hav
      obtain ⟨cI, cO⟩ := hcontig rfl
      rw [rI] at cI
      rw [rO] at cO
      have pin := phaseOut_coe (ty := 4) (cnt := min d.fmmuCount 16) (fi := (position 2 d.fmmuUsage).getD 0)
        (Or.inr rfl) inJobs st0.regs a hndI (fun _ => h0 _) (by
          intro hi
          obtain ⟨j, hj, hjn⟩ := jobLens_ne_zero hi
          obtain ⟨fi, hfi⟩ := i3' j hj hjn
          rw [hfi]; exact hav' _ _ hfi) cI
      have pout := phaseOut_coe (ty := 3) (cnt := min d.fmmuCount 16) (fi := (position 1 d.fmmuUsage).getD 0)
        (Or.inl rfl) outJobs st1.regs c hndO hd2 (by
          intro ho
          obtain ⟨j, hj, hjn⟩ := jobLens_ne_zero ho
          obtain ⟨fo, hfo⟩ := o3' j hj hjn
          rw [hfo]; exact hav' _ _ hfo) cO
      rw [← i10] at pin
      rw [← o10] at pout
      obtain ⟨hr, hw, _⟩ := two_phase h0 pin pout hdj
      rw [mem_fmmuMap, mem_fmmuMap, hr x p, hw x p, rI, rO, i4, o4]
      exact ⟨Iff.rfl, Iff.rfl⟩


/-! ### tilings -/

/-- Consecutive ranges `(from, to)` covering `s .. e` without gap or overlap. -/
def Tiling : Nat → List (Nat × Nat) → Nat → Prop
  | s, [], e => s = e
  | s, (x, y) :: rest, e => x = s ∧ x ≤ y ∧ Tiling y rest e

theorem tiling_le : ∀ {ws : List (Nat × Nat)} {s e : Nat}, Tiling s ws e → s ≤ e := by
  intro ws
  induction ws with
  | nil => intro s e h; simp [Tiling] at h; omega
  | cons w rest ih =>
    intro s e h
    obtain ⟨x, y⟩ := w
    simp only [Tiling] at h
    have := ih h.2.2
    omega

theorem tiling_mem : ∀ {ws : List (Nat × Nat)} {s e : Nat}, Tiling s ws e →
    ∀ w ∈ ws, s ≤ w.1 ∧ w.1 ≤ w.2 ∧ w.2 ≤ e := by
  intro ws
  induction ws with
  | nil => intro s e _ w hw; simp at hw
  | cons w0 rest ih =>
    intro s e h w hw
    obtain ⟨x, y⟩ := w0
    simp only [Tiling] at h
    rcases List.mem_cons.1 hw with rfl | hw
    · have := tiling_le h.2.2
      simp; omega
    · have := ih h.2.2 w hw
      omega

theorem tiling_pairwise : ∀ {ws : List (Nat × Nat)} {s e : Nat}, Tiling s ws e →
    ws.Pairwise (fun u v => u.2 ≤ v.1) := by
  intro ws
  induction ws with
  | nil => intro s e _; exact List.Pairwise.nil
  | cons w0 rest ih =>
    intro s e h
    obtain ⟨x, y⟩ := w0
    simp only [Tiling] at h
    refine List.Pairwise.cons ?_ (ih h.2.2)
    intro v hv
    exact (tiling_mem h.2.2 v hv).1

theorem tiling_sum : ∀ {ws : List (Nat × Nat)} {s e : Nat}, Tiling s ws e →
    e = s + natSum (ws.map fun w => w.2 - w.1) := by
  intro ws
  induction ws with
  | nil => intro s e h; simp [Tiling] at h; simp [natSum, h]
  | cons w0 rest ih =>
    intro s e h
    obtain ⟨x, y⟩ := w0
    simp only [Tiling] at h
    have := ih h.2.2
    simp only [List.map, natSum]
    omega

/-! ### the two passes of a group -/

/-- Both passes on one device: offsets before/after the inputs pass (`a`, `b`) and the outputs pass (`c`, `e`). -/
structure Trace where
  d : Device
  st0 : DevState
  st1 : DevState
  st2 : DevState
  a : Nat
  b : Nat
  c : Nat
  e : Nat

def Trace.ok (gs : Nat) (t : Trace) : Prop :=
  configureFmmus .checked t.d t.st0 t.a gs .input = .ok (t.b, t.st1) ∧
  configureFmmus .checked t.d t.st1 t.c gs .output = .ok (t.e, t.st2)

/-- All FMMU entities of every device are disabled (state after `init`). -/
def Fresh (devs : List (Device × DevState)) : Prop := ∀ x ∈ devs, ∀ k, (x.2.regs.fmmu k).enable = false

theorem passDir_cons {m : Mode} {dir : Dir} {gs off : Nat} {d : Device} {st : DevState}
    {rest : List (Device × DevState)} {res : Nat × List (Device × DevState)}
    (h : passDir m dir gs off ((d, st) :: rest) = .ok res) :
    ∃ off' st' q, configureFmmus m d st off gs dir = .ok (off', st') ∧
      passDir m dir gs off' rest = .ok q ∧ res = (q.1, (d, st') :: q.2) := by
  simp only [passDir] at h
  obtain ⟨p, hp, h⟩ := bind_eq_ok.1 h
  obtain ⟨q, hq, h⟩ := bind_eq_ok.1 h
  simp only [Outcome.ok.injEq] at h
  exact ⟨p.1, p.2, q, hp, hq, h.symm⟩

theorem two_pass {gs : Nat} : ∀ (devs : List (Device × DevState)) (a p1 c p2 : Nat)
    (devs1 devs2 : List (Device × DevState)),
    Fresh devs →
    passDir .checked .input gs a devs = .ok (p1, devs1) →
    passDir .checked .output gs c devs1 = .ok (p2, devs2) →
    ∃ ts : List Trace,
      ts.map (fun t => (t.d, t.st0)) = devs ∧ ts.map (fun t => (t.d, t.st2)) = devs2 ∧
      (∀ t ∈ ts, t.ok gs) ∧
      Tiling a (ts.map fun t => (t.a, t.b)) p1 ∧ Tiling c (ts.map fun t => (t.c, t.e)) p2 := by
  intro devs
  induction devs with
  | nil =>
    intro a p1 c p2 devs1 devs2 _ h1 h2
    simp only [passDir, Outcome.ok.injEq, Prod.mk.injEq] at h1
    obtain ⟨rfl, rfl⟩ := h1
    simp only [passDir, Outcome.ok.injEq, Prod.mk.injEq] at h2
    obtain ⟨rfl, rfl⟩ := h2
    exact ⟨[], rfl, rfl, by simp, by simp [Tiling], by simp [Tiling]⟩
  | cons x rest ih =>
    intro a p1 c p2 devs1 devs2 hf h1 h2
    obtain ⟨d, st0⟩ := x
    obtain ⟨b, st1, q, hc1, hq1, e1⟩ := passDir_cons h1
    simp only [Prod.mk.injEq] at e1
    obtain ⟨rfl, rfl⟩ := e1
    obtain ⟨e, st2, q', hc2, hq2, e2⟩ := passDir_cons h2
    simp only [Prod.mk.injEq] at e2
    obtain ⟨rfl, rfl⟩ := e2
    have hf' : Fresh rest := fun y hy => hf y (by simp [hy])
    obtain ⟨ts, t1, t2, t3, t4, t5⟩ := ih b q.1 e q'.1 q.2 q'.2 hf' hq1 hq2
    have hd := device_spec (hf (d, st0) (by simp)) hc1 hc2
    refine ⟨⟨d, st0, st1, st2, a, b, c, e⟩ :: ts, by simp [t1], by simp [t2], ?_, ?_, ?_⟩
    · intro t ht
      rcases List.mem_cons.1 ht with rfl | ht
      · exact ⟨hc1, hc2⟩
      · exact t3 t ht
    · simp only [List.map, Tiling]; exact ⟨trivial, hd.2.2.1, t4⟩
    · simp only [List.map, Tiling]; exact ⟨trivial, hd.2.2.2.1, t5⟩

/-- Structure of a successful group layout. -/
theorem group_spec {start : Nat} {devs : List (Device × DevState)} {g : GroupLayout}
    (hf : Fresh devs) (h : groupLayout .checked start devs = .ok g) :
    ∃ (ts : List Trace) (p1 p2 : Nat),
      ts.map (fun t => (t.d, t.st0)) = devs ∧ g.devs = ts.map (fun t => (t.d, t.st2)) ∧
      (∀ t ∈ ts, t.ok start) ∧
      Tiling start (ts.map fun t => (t.a, t.b)) p1 ∧ Tiling p1 (ts.map fun t => (t.c, t.e)) p2 ∧
      g.readLen = p1 - start ∧ g.pdiLen = p2 - start ∧ start ≤ p1 ∧ p1 ≤ p2 := by
  unfold groupLayout at h
  obtain ⟨q1, h1, h⟩ := bind_eq_ok.1 h
  obtain ⟨rl, hrl, h⟩ := bind_eq_ok.1 h
  obtain ⟨q2, h2, h⟩ := bind_eq_ok.1 h
  obtain ⟨pl, hpl, h⟩ := bind_eq_ok.1 h
  obtain ⟨_, rfl⟩ := subWrap_ok.1 hrl
  obtain ⟨_, rfl⟩ := subWrap_ok.1 hpl
  simp only [Outcome.ok.injEq] at h
  subst h
  obtain ⟨ts, t1, t2, t3, t4, t5⟩ := two_pass devs start q1.1 q1.1 q2.1 q1.2 q2.2 hf h1 h2
  exact ⟨ts, q1.1, q2.1, t1, t2.symm, t3, t4, t5, rfl, rfl, tiling_le t4, tiling_le t5⟩

/-! ### group start addresses -/

/-- Consecutive start addresses: each group is `MAX_PDI as u16` bytes after the previous one. -/
def StartsRel : Nat → List Nat → List Nat → Prop
  | _, [], starts => starts = []
  | off, mp :: rest, starts => ∃ tail, starts = off :: tail ∧ StartsRel (off + mp % 65536) rest tail

theorem groupStarts_rel : ∀ (mps : List Nat) (off : Nat) (starts : List Nat),
    groupStarts .checked off mps = .ok starts → StartsRel off mps starts := by
  intro mps
  induction mps with
  | nil => intro off starts h; simp [groupStarts] at h; simp [StartsRel, h]
  | cons mp rest ih =>
    intro off starts h
    simp only [groupStarts] at h
    obtain ⟨off', h1, h⟩ := bind_eq_ok.1 h
    obtain ⟨l, h2, h3⟩ := bind_eq_ok.1 h
    simp only [Outcome.ok.injEq] at h3
    obtain ⟨_, rfl⟩ := add32_ok.1 h1
    exact ⟨l, h3.symm, by simpa [U16] using ih _ _ h2⟩

/-- Any two groups: the later one starts at or after the earlier one's start plus its `MAX_PDI as u16`. -/
theorem starts_pairwise : ∀ (mps : List Nat) (off : Nat) (starts : List Nat), StartsRel off mps starts →
    (mps.zip starts).Pairwise (fun u v => u.2 + u.1 % 65536 ≤ v.2) ∧ ∀ u ∈ mps.zip starts, off ≤ u.2 := by
  intro mps
  induction mps with
  | nil => intro off starts _; simp
  | cons mp rest ih =>
    intro off starts h
    obtain ⟨tail, rfl, h⟩ := h
    obtain ⟨ih1, ih2⟩ := ih _ _ h
    simp only [List.zip_cons_cons]
    refine ⟨List.Pairwise.cons ?_ ih1, ?_⟩
    · intro v hv
      exact ih2 v hv
    · intro u hu
      rcases List.mem_cons.1 hu with rfl | hu
      · simp
      · have := ih2 u hu; omega

/-! ### overflow-checking build vs wrapping build -/

theorem bind_mode {α β : Type} {x x' : Out α} {f f' : α → Out β} {b : β}
    (hx : ∀ a, x = .ok a → x' = .ok a) (hf : ∀ a, f a = .ok b → f' a = .ok b)
    (h : bind x f = .ok b) : bind x' f' = .ok b := by
  obtain ⟨a, ha, hb⟩ := bind_eq_ok.1 h
  exact bind_eq_ok.2 ⟨a, hx a ha, hf a hb⟩

theorem incrementByteAligned_mode (m : Mode) {off bits v : Nat} (h : incrementByteAligned .checked off bits = .ok v) :
    incrementByteAligned m off bits = .ok v :=
  arith_mode m h

theorem sumMappings_mode (m : Mode) : ∀ (l : List Nat) (acc v : Nat),
    sumMappings .checked acc l = .ok v → sumMappings m acc l = .ok v := by
  intro l
  induction l with
  | nil => intro acc v h; simpa [sumMappings] using h
  | cons b rest ih =>
    intro acc v h
    simp only [sumMappings] at h ⊢
    exact bind_mode (fun _ ha => arith_mode m ha) (fun a hb => ih a v hb) h

theorem coeSmBitLen_mode (m : Mode) (os : List (Nat × Nat)) : ∀ (l : List CoePdo) (acc v : Nat),
    coeSmBitLen .checked os acc l = .ok v → coeSmBitLen m os acc l = .ok v := by
  intro l
  induction l with
  | nil => intro acc v h; simpa [coeSmBitLen] using h
  | cons p rest ih =>
    intro acc v h
    simp only [coeSmBitLen] at h ⊢
    refine bind_mode (fun _ ha => sumMappings_mode m _ _ _ ha) (fun a hb => ?_) h
    refine bind_mode (fun _ ha => arith_mode m ha) (fun a2 hb2 => ?_) hb
    exact bind_mode (fun _ ha => arith_mode m ha) (fun a3 hb3 => ih a3 v hb3) hb2

theorem eepromSmBitLen_mode (m : Mode) (os : List (Nat × Nat)) (i : Nat) : ∀ (l : List Pdo) (acc v : Nat),
    eepromSmBitLen .checked os i acc l = .ok v → eepromSmBitLen m os i acc l = .ok v := by
  intro l
  induction l with
  | nil => intro acc v h; simpa [eepromSmBitLen] using h
  | cons p rest ih =>
    intro acc v h
    simp only [eepromSmBitLen] at h ⊢
    by_cases hp : p.sm = i
    · rw [if_pos hp] at h ⊢
      refine bind_mode (fun _ ha => arith_mode m ha) (fun a hb => ?_) h
      exact bind_mode (fun _ ha => arith_mode m ha) (fun a2 hb2 => ih a2 v hb2) hb
    · rw [if_neg hp] at h ⊢
      exact ih acc v h

theorem writeFmmuConfig_mode (m : Mode) {r : Regs} {fi off ty : Nat} {cfg : SmReg} {p : Regs × Nat}
    (h : writeFmmuConfig .checked r fi off ty cfg = .ok p) : writeFmmuConfig m r fi off ty cfg = .ok p := by
  unfold writeFmmuConfig at h ⊢
  refine bind_mode (fun a ha => ha) (fun a hb => ?_) h
  exact bind_mode (fun _ ha2 => arith_mode m ha2) (fun _ hb2 => hb2) hb

theorem coeLoop_mode (m : Mode) (d : Device) (dir : Dir) : ∀ (L : List (Nat × SmDesc)) (r : Regs) (off : Nat)
    (res : Regs × Nat), coeLoop .checked d dir L r off = .ok res → coeLoop m d dir L r off = .ok res := by
  intro L
  induction L with
  | nil => intro r off res h; simpa [coeLoop] using h
  | cons x rest ih =>
    intro r off res h
    obtain ⟨i, sm⟩ := x
    simp only [coeLoop] at h ⊢
    by_cases hty : sm.usageType ≠ dir.smType
    · rw [if_pos hty] at h ⊢; exact ih _ _ _ h
    · rw [if_neg hty] at h ⊢
      cases hc : d.coe i with
      | none => simp [hc] at h
      | some pdos =>
        simp only [hc] at h ⊢
        refine bind_mode (fun _ ha => coeSmBitLen_mode m _ _ _ _ ha) (fun bits hb => ?_) h
        refine bind_mode (fun _ ha => ha) (fun lb hb2 => ?_) hb
        by_cases hpos : bits > 0
        · simp only [hpos, if_true] at hb2 ⊢
          cases hp : position dir.fmmuType d.fmmuUsage with
          | none => simp [hp] at hb2
          | some fi =>
            simp only [hp] at hb2 ⊢
            exact bind_mode (fun _ ha => writeFmmuConfig_mode m ha) (fun p hb3 => ih _ _ _ hb3) hb2
        · simp only [hpos, if_false] at hb2 ⊢
          exact ih _ _ _ hb2

theorem eepromLoop_mode (m : Mode) (d : Device) (dir : Dir) (pdos : List Pdo) : ∀ (L : List (Nat × SmDesc))
    (r : Regs) (off : Nat) (res : Regs × Nat),
    eepromLoop .checked d dir pdos L r off = .ok res → eepromLoop m d dir pdos L r off = .ok res := by
  intro L
  induction L with
  | nil => intro r off res h; simpa [eepromLoop] using h
  | cons x rest ih =>
    intro r off res h
    obtain ⟨i, sm⟩ := x
    simp only [eepromLoop] at h ⊢
    by_cases hty : sm.usageType ≠ dir.smType
    · rw [if_pos hty] at h ⊢; exact ih _ _ _ h
    · rw [if_neg hty] at h ⊢
      refine bind_mode (fun _ ha => eepromSmBitLen_mode m _ _ _ _ _ ha) (fun bits hb => ?_) h
      refine bind_mode (fun _ ha => ha) (fun lb hb2 => ?_) hb
      exact bind_mode (fun _ ha => writeFmmuConfig_mode m ha) (fun p hb3 => ih _ _ _ hb3) hb2

theorem configureFmmus_mode (m : Mode) {d : Device} {st : DevState} {off gs : Nat} {dir : Dir}
    {res : Nat × DevState} (h : configureFmmus .checked d st off gs dir = .ok res) :
    configureFmmus m d st off gs dir = .ok res := by
  unfold configureFmmus at h ⊢
  by_cases hcap : d.sms.length > 8
  · simp [hcap] at h
  · rw [if_neg hcap] at h ⊢
    refine bind_mode (fun a ha => ?_) (fun p hb => ?_) h
    · by_cases hc : st.hasCoe = true
      · simp only [hc, if_true] at ha ⊢; exact coeLoop_mode m _ _ _ _ _ _ ha
      · simp only [hc] at ha ⊢; exact eepromLoop_mode m _ _ _ _ _ _ _ ha
    · refine bind_mode (fun _ ha => subWrap_mode m ha) (fun s hb2 => ?_) hb
      exact bind_mode (fun _ ha => subWrap_mode m ha) (fun _ hb3 => hb3) hb2

theorem passDir_mode (m : Mode) (dir : Dir) (gs : Nat) : ∀ (devs : List (Device × DevState)) (off : Nat)
    (res : Nat × List (Device × DevState)),
    passDir .checked dir gs off devs = .ok res → passDir m dir gs off devs = .ok res := by
  intro devs
  induction devs with
  | nil => intro off res h; simpa [passDir] using h
  | cons x rest ih =>
    intro off res h
    obtain ⟨d, st⟩ := x
    simp only [passDir] at h ⊢
    refine bind_mode (fun _ ha => configureFmmus_mode m ha) (fun p hb => ?_) h
    exact bind_mode (fun _ ha => ih _ _ ha) (fun _ hb2 => hb2) hb

theorem groupLayout_mode (m : Mode) {start : Nat} {devs : List (Device × DevState)} {g : GroupLayout}
    (h : groupLayout .checked start devs = .ok g) : groupLayout m start devs = .ok g := by
  unfold groupLayout at h ⊢
  refine bind_mode (fun _ ha => passDir_mode m _ _ _ _ _ ha) (fun p1 hb => ?_) h
  refine bind_mode (fun _ ha => subWrap_mode m ha) (fun rl hb2 => ?_) hb
  refine bind_mode (fun _ ha => passDir_mode m _ _ _ _ _ ha) (fun p2 hb3 => ?_) hb2
  exact bind_mode (fun _ ha => subWrap_mode m ha) (fun _ hb4 => hb4) hb3

/-! ### state after `init` -/

theorem mailboxLoop_fmmu (mb : MailboxCfg) : ∀ (L : List (Nat × SmDesc)) (r : Regs) (rd : Bool),
    (mailboxLoop mb L r rd).1.fmmu = r.fmmu := by
  intro L
  induction L with
  | nil => intro r rd; simp [mailboxLoop]
  | cons x rest ih =>
    intro r rd
    obtain ⟨i, sm⟩ := x
    simp only [mailboxLoop]
    split
    · rw [ih]; simp [writeSmConfig]
    · split
      · rw [ih]; simp [writeSmConfig]
      · rw [ih]

theorem initDev_fresh (d : Device) (k : Nat) : ((initDev d).regs.fmmu k).enable = false := by
  unfold initDev configureMailboxSms
  split
  · simp [Regs.zero]
  · simp [mailboxLoop_fmmu, Regs.zero]

theorem members_fresh (n : Net) (slot : Nat) : Fresh (n.members slot) := by
  intro x hx k
  unfold Net.members at hx
  obtain ⟨y, _, rfl⟩ := List.mem_map.1 hx
  exact initDev_fresh y.1 k


/-! ### glue for the property theorems -/

theorem configure_ok_iff {m : Mode} {start maxPdi : Nat} {devs : List (Device × DevState)} {g : GroupLayout} :
    groupConfigureFmmus m start maxPdi devs = .ok g ↔ groupLayout m start devs = .ok g ∧ g.pdiLen ≤ maxPdi := by
  unfold groupConfigureFmmus
  rw [bind_eq_ok]
  constructor
  · rintro ⟨g', hg, hc⟩
    unfold checkLen at hc
    by_cases hl : g'.pdiLen > maxPdi
    · simp [hl] at hc
    · simp only [hl, if_false, Outcome.ok.injEq] at hc
      subst hc
      exact ⟨hg, by omega⟩
  · rintro ⟨hg, hl⟩
    refine ⟨g, hg, ?_⟩
    unfold checkLen
    simp [Nat.not_lt.2 hl]

theorem trace_fresh {devs : List (Device × DevState)} {ts : List Trace} (hf : Fresh devs)
    (hm : ts.map (fun t => (t.d, t.st0)) = devs) {t : Trace} (ht : t ∈ ts) :
    ∀ k, (t.st0.regs.fmmu k).enable = false := by
  have : (t.d, t.st0) ∈ devs := by rw [← hm]; exact List.mem_map_of_mem (f := fun t => (t.d, t.st0)) ht
  exact hf _ this

theorem groupStarts_mode (m : Mode) : ∀ (mps : List Nat) (off : Nat) (starts : List Nat),
    groupStarts .checked off mps = .ok starts → groupStarts m off mps = .ok starts := by
  intro mps
  induction mps with
  | nil => intro off starts h; simpa [groupStarts] using h
  | cons mp rest ih =>
    intro off starts h
    simp only [groupStarts] at h ⊢
    refine bind_mode (fun _ ha => arith_mode m ha) (fun a hb => ?_) h
    exact bind_mode (fun _ ha => ih _ _ ha) (fun _ hb2 => hb2) hb


theorem position_lt_length {t : Nat} : ∀ {l : List Nat} {i : Nat}, position t l = some i → i < l.length := by
  intro l
  induction l with
  | nil => intro i h; simp [position] at h
  | cons x rest ih =>
    intro i h
    simp only [position] at h
    by_cases hx : x = t
    · rw [if_pos hx] at h; simp at h; subst h; simp
    · rw [if_neg hx] at h
      cases hp : position t rest with
      | none => simp [hp] at h
      | some k =>
        simp [hp] at h
        subst h
        have := ih hp
        simp only [List.length_cons]; omega

/-- CoE path: a device whose FMMU usage list is not longer than its number of FMMU entities has every entity the
    MainDevice can pick. -/
theorem fmmuAvail_coe {d : Device} (h : d.fmmuUsage.length ≤ min d.fmmuCount 16) : FmmuAvail d true := by
  simp only [FmmuAvail, if_true]
  intro t fi hp
  have := position_lt_length hp
  omega

/-- EEPROM path: a device with at least as many FMMU entities as sync managers has every entity needed. -/
theorem fmmuAvail_eeprom {d : Device} (h : d.sms.length ≤ min d.fmmuCount 16) : FmmuAvail d false := by
  simp only [FmmuAvail, Bool.false_eq_true, if_false]
  intro x hx _
  have := mem_enumFrom hx
  omega

instance Contig.dec : (s : Nat) → (ws : List (Nat × Nat)) → Decidable (Contig s ws)
  | _, [] => isTrue trivial
  | s, (st, n) :: rest =>
    if h : n = 0 then
      match Contig.dec s rest with
      | isTrue hc => isTrue (by simp only [Contig, h, if_true]; exact hc)
      | isFalse hc => isFalse (by simp only [Contig, h, if_true]; exact hc)
    else
      match Contig.dec (s + n) rest with
      | isTrue hc =>
        if hs : st = s then isTrue (by simp only [Contig, h, if_false]; exact ⟨hs, hc⟩)
        else isFalse (by simp only [Contig, h, if_false]; exact fun x => hs x.1)
      | isFalse hc => isFalse (by simp only [Contig, h, if_false]; exact fun x => hc x.2)

end Ec.Config
