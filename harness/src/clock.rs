//! Virtual clock: the harness implements the `embassy-time` driver that ethercrab's `no_std`
//! build uses for every timer. Time only moves when the harness says so. 1 tick = 1 µs.
use core::task::Waker;
use std::sync::Mutex;
use std::sync::atomic::{AtomicU64, Ordering};

pub struct VirtualClock {
    now: AtomicU64,
    wakers: Mutex<Vec<(u64, Waker)>>,
}

impl embassy_time_driver::Driver for VirtualClock {
    fn now(&self) -> u64 {
        self.now.load(Ordering::SeqCst)
    }

    fn schedule_wake(&self, at: u64, waker: &Waker) {
        self.wakers.lock().unwrap().push((at, waker.clone()));
    }
}

embassy_time_driver::time_driver_impl!(static CLOCK: VirtualClock = VirtualClock {
    now: AtomicU64::new(0),
    wakers: Mutex::new(Vec::new()),
});

pub fn now() -> u64 {
    CLOCK.now.load(Ordering::SeqCst)
}

/// Earliest pending timer deadline, if any.
pub fn next_deadline() -> Option<u64> {
    CLOCK.wakers.lock().unwrap().iter().map(|(t, _)| *t).min()
}

/// Move time forward by `us` microseconds and wake everything that became due.
pub fn advance(us: u64) {
    let t = CLOCK.now.fetch_add(us, Ordering::SeqCst) + us;
    let mut due = Vec::new();
    {
        let mut w = CLOCK.wakers.lock().unwrap();
        let mut i = 0;
        while i < w.len() {
            if w[i].0 <= t {
                due.push(w.swap_remove(i).1);
            } else {
                i += 1;
            }
        }
    }
    for w in due {
        w.wake();
    }
}

/// Forget all registered timers (between cases).
pub fn clear() {
    CLOCK.wakers.lock().unwrap().clear();
}
