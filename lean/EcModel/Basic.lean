/-
  EcModel.Basic — shared vocabulary of the ethercrab models.

  Bytes are natural numbers (< 256 by construction of every producer); byte strings are `List Nat`.
  Import-free on purpose: every model file must link into the native `ecdriver` executable.
-/
namespace Ec

/-- Little-endian encoding of a `u16` (value taken mod 2^16, like `to_le_bytes` after `as u16`). -/
def le16 (n : Nat) : List Nat := [n % 256, n / 256 % 256]

/-- Little-endian encoding of a `u32`. -/
def le32 (n : Nat) : List Nat := [n % 256, n / 256 % 256, n / 65536 % 256, n / 16777216 % 256]

/-- Little-endian encoding of a `u64`. -/
def le64 (n : Nat) : List Nat := le32 (n % 4294967296) ++ le32 (n / 4294967296)

/-- Little-endian decoding of the first two bytes (missing bytes read as 0; callers check lengths). -/
def rd16 (l : List Nat) : Nat := l.getD 0 0 + 256 * l.getD 1 0

def rd32 (l : List Nat) : Nat :=
  l.getD 0 0 + 256 * l.getD 1 0 + 65536 * l.getD 2 0 + 16777216 * l.getD 3 0

def rd64 (l : List Nat) : Nat := rd32 l + 4294967296 * rd32 (l.drop 4)

/-- `n` zero bytes. -/
def zeros (n : Nat) : List Nat := List.replicate n 0

/-- Overwrite `l[off .. off + bs.length)` with `bs` (the Rust `buf[off..off+n].copy_from_slice(bs)`;
    callers establish `off + bs.length ≤ l.length`). -/
def setRange (l : List Nat) (off : Nat) (bs : List Nat) : List Nat :=
  l.take off ++ bs ++ l.drop (off + bs.length)

theorem setRange_length (l : List Nat) (off : Nat) (bs : List Nat)
    (h : off + bs.length ≤ l.length) : (setRange l off bs).length = l.length := by
  simp [setRange]; omega

theorem le16_length (n : Nat) : (le16 n).length = 2 := rfl
theorem le32_length (n : Nat) : (le32 n).length = 4 := rfl
theorem zeros_length (n : Nat) : (zeros n).length = n := by simp [zeros]

theorem rd16_le16 (n : Nat) (h : n < 65536) : rd16 (le16 n) = n := by
  simp [rd16, le16]; omega

theorem rd16_append (a b : Nat) (rest : List Nat) : rd16 (a :: b :: rest) = a + 256 * b := by
  simp [rd16]

/-- All elements are bytes. -/
def AllBytes (l : List Nat) : Prop := ∀ x ∈ l, x < 256

/-- Outcome of a Rust operation that may return `Err` or unwind. -/
inductive Outcome (ε α : Type) where
  | ok (a : α)
  | err (e : ε)
  | panic (why : String)
  deriving Repr, DecidableEq

/-- Overflow-check build mode (`debug` = overflow-checks on, `release` = wrapping). -/
inductive Mode where
  | checked | wrapping
  deriving Repr, DecidableEq

/-- Hex helpers for the line protocol. -/
def hexDigit (n : Nat) : Char :=
  if n < 10 then Char.ofNat (48 + n) else Char.ofNat (87 + n)

def hexByte (n : Nat) : String := String.ofList [hexDigit (n / 16 % 16), hexDigit (n % 16)]

def hexBytes (l : List Nat) : String := String.join (l.map hexByte)

def hexVal (c : Char) : Option Nat :=
  if '0' ≤ c ∧ c ≤ '9' then some (c.toNat - 48)
  else if 'a' ≤ c ∧ c ≤ 'f' then some (c.toNat - 87)
  else if 'A' ≤ c ∧ c ≤ 'F' then some (c.toNat - 55)
  else none

def parseHexAux : List Char → List Nat → Option (List Nat)
  | [], acc => some acc.reverse
  | [_], _ => none
  | a :: b :: rest, acc =>
    match hexVal a, hexVal b with
    | some x, some y => parseHexAux rest ((16 * x + y) :: acc)
    | _, _ => none

/-- Parse a hex string (`-` or empty = empty byte string). -/
def parseHex (s : String) : Option (List Nat) :=
  if s = "-" then some [] else parseHexAux s.toList []

end Ec
