/-
  Helper lemmas for C18 (DcSync model): little-endian round trips, the in-range evaluation of the
  start-time expression, and the shape of the register writes of one device / of the device loop.
-/
import EcModel.DcSync

namespace Ec.DcSync
open Ec

theorem rd32_le32 (n : Nat) (h : n < 4294967296) : rd32 (le32 n) = n := by
  simp [rd32, le32]; omega

theorem rd64_le64 (n : Nat) (h : n < U64) : rd64 (le64 n) = n := by
  have h : n < 18446744073709551616 := h
  have h1 : n % 4294967296 < 4294967296 := Nat.mod_lt _ (by decide)
  have h2 : n / 4294967296 < 4294967296 := by omega
  have e1 := rd32_le32 _ h1
  have e2 := rd32_le32 _ h2
  simp only [rd64, le64]
  have e3 : rd32 (le32 (n % 4294967296) ++ le32 (n / 4294967296)) = rd32 (le32 (n % 4294967296)) := by
    simp [rd32, le32]
  rw [e3, e1]
  have e4 : (le32 (n % 4294967296) ++ le32 (n / 4294967296)).drop 4 = le32 (n / 4294967296) := by
    simp [le32]
  rw [e4, e2]; omega

/-- The register image `configure_dc_sync` leaves in one device that wants DC, in write order:
    sync unit deactivated; start time; SYNC0 cycle time; (only for `Sync01`) SYNC1 cycle time;
    activation `0x03` (SYNC0 + cyclic) or `0x07` (SYNC1 + SYNC0 + cyclic). Literal register numbers
    on purpose: the regenerated constants of `Ec.Gen.Dc` must agree with them. -/
def okWrites (start period : Nat) (d : Dev) : List Write :=
  [⟨d.addr, 0x0981, [0]⟩, ⟨d.addr, 0x0990, le64 start⟩, ⟨d.addr, 0x09A0, le64 period⟩] ++
  (match d.sync with
   | .sync01 s1 => [⟨d.addr, 0x09A4, le64 s1⟩, ⟨d.addr, 0x0981, [0x07]⟩]
   | _ => [⟨d.addr, 0x0981, [0x03]⟩])

/-- SYNC1 periods representable in 64 bits (`u64::try_from(sync1_period.as_nanos())` succeeds). -/
def Sync1Fits (d : Dev) : Prop := ∀ s1, d.sync = .sync01 s1 → s1 < U64

theorem startTime_ok (m : Mode) (first period : Nat) (h : first < U64) (hp : 0 < period) :
    startTime m first period = .ok (first / period * period) := by
  have hle : first / period * period ≤ first := Nat.div_mul_le_self _ _
  have hlt : first / period * period < U64 := by omega
  have hp' : period ≠ 0 := by omega
  simp [startTime, divU64, mulU64, hp', hlt]

theorem devBody_ok (m : Mode) (first period start : Nat) (d : Dev)
    (hs : startTime m first period = .ok start) (hf : Sync1Fits d) :
    devBody m first period d = (okWrites start period d, .ok ()) := by
  unfold devBody okWrites
  rw [hs]
  cases hsync : d.sync with
  | disabled => rfl
  | sync0 => rfl
  | sync01 s1 =>
    have : s1 < U64 := hf s1 hsync
    simp [this]
    decide

theorem devBody_addr (m : Mode) (first period : Nat) (d : Dev) :
    ∀ w ∈ (devBody m first period d).1, w.addr = d.addr := by
  unfold devBody
  cases startTime m first period with
  | panic s => simp
  | err e => simp
  | ok st =>
    cases d.sync with
    | disabled => simp
    | sync0 => simp
    | sync01 s1 =>
      by_cases h : s1 < U64 <;> simp [h]

theorem devLoop_ok (m : Mode) (first period start : Nat)
    (hs : startTime m first period = .ok start) (devs : List Dev)
    (hf : ∀ d ∈ devs, Sync1Fits d) :
    devLoop m first period devs = (((devs.filter (fun d => wants d)).flatMap (okWrites start period)), .ok ()) := by
  induction devs with
  | nil => rfl
  | cons d ds ih =>
    have ih' := ih (fun x hx => hf x (List.mem_cons_of_mem _ hx))
    by_cases hw : wants d = true
    · simp only [devLoop, hw, if_true]
      rw [devBody_ok m first period start d hs (hf d (List.mem_cons_self ..)), ih']
      simp [hw]
    · simp only [devLoop, hw]
      rw [ih']
      simp [hw]

theorem devLoop_addr (m : Mode) (first period : Nat) (devs : List Dev) :
    ∀ w ∈ (devLoop m first period devs).1, ∃ d ∈ devs, wants d = true ∧ w.addr = d.addr := by
  induction devs with
  | nil => simp [devLoop]
  | cons d ds ih =>
    intro w hwm
    by_cases hw : wants d = true
    · simp only [devLoop, hw, if_true] at hwm
      have hb := devBody_addr m first period d
      rcases hbody : devBody m first period d with ⟨ws, r⟩
      rw [hbody] at hwm hb
      cases r with
      | ok u =>
        cases u
        simp only [List.mem_append] at hwm
        rcases hwm with h | h
        · exact ⟨d, List.mem_cons_self .., hw, hb w h⟩
        · rcases ih w h with ⟨d', hd', hw', ha⟩
          exact ⟨d', List.mem_cons_of_mem _ hd', hw', ha⟩
      | err e => exact ⟨d, List.mem_cons_self .., hw, hb w hwm⟩
      | panic s => exact ⟨d, List.mem_cons_self .., hw, hb w hwm⟩
    · simp only [devLoop, hw] at hwm
      rcases ih w hwm with ⟨d', hd', hw', ha⟩
      exact ⟨d', List.mem_cons_of_mem _ hd', hw', ha⟩

end Ec.DcSync
