#!/bin/sh
# Build the framework from files on disk only (offline).
set -e
cd "$(dirname "$0")"
export CARGO_NET_OFFLINE=true
python3 tools/extract.py || true
(cd lean && lake build EcModel $(grep -o 'drv_c[0-9a-z_]*' lakefile.toml | sort -u))
(cd harness && cargo build --offline)
