use ethercrab_wire::{EtherCrabWireRead, EtherCrabWireReadWrite, EtherCrabWireWriteSized};

#[test]
fn implicit_discriminants_round_trip() {
    #[derive(Debug, PartialEq, Copy, Clone, EtherCrabWireReadWrite)]
    #[repr(u8)]
    enum Implicit {
        A,
        B,
        C,
    }

    assert_eq!(Implicit::A.pack(), [Implicit::A as u8]);
    assert_eq!(Implicit::A.pack(), [0]);

    for variant in [Implicit::A, Implicit::B, Implicit::C] {
        assert_eq!(Implicit::unpack_from_slice(&variant.pack()), Ok(variant));
    }

    assert_eq!(
        Implicit::unpack_from_slice(&[3]),
        Err(ethercrab_wire::WireError::InvalidValue)
    );
}

#[test]
fn alternatives_do_not_renumber() {
    #[derive(Debug, PartialEq, Copy, Clone, EtherCrabWireReadWrite)]
    #[repr(u8)]
    enum WithAlternatives {
        #[wire(alternatives = [5, 6])]
        A = 1,
        // Rust numbers this `2`, so it must decode from `2`, not from `7`.
        B,
    }

    assert_eq!(WithAlternatives::B as u8, 2);
    assert_eq!(WithAlternatives::B.pack(), [2]);
    assert_eq!(
        WithAlternatives::unpack_from_slice(&[2]),
        Ok(WithAlternatives::B)
    );
    assert_eq!(
        WithAlternatives::unpack_from_slice(&[5]),
        Ok(WithAlternatives::A)
    );
    assert_eq!(
        WithAlternatives::unpack_from_slice(&[7]),
        Err(ethercrab_wire::WireError::InvalidValue)
    );
}
