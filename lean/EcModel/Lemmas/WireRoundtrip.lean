/-
  Derived structs (C19): unpacking the packed image gives the value back.
-/
import EcModel.Lemmas.WireRead

namespace Ec.Wire
open Ec

/-- Layout/type consistency the macro cannot check (it does not know the size of a field's type): a non-`u8`/`bool`
    field of at most 8 bits has a one-byte type, a multi-byte field's type is not longer than its slot. -/
def FieldMeta.slotFits (f : FieldMeta) : Bool :=
  f.skip || (if f.bitsLen ≤ 8 then f.ty.isU8OrBool || f.codec.len == 1 else decide (f.codec.len ≤ f.bytesLen))

theorem isU8OrBool_iff (t : TyTok) : t.isU8OrBool = true ↔ t = .u8 ∨ t = .bool := by
  cases t <;> simp [TyTok.isU8OrBool]

theorem fieldsBit_below : ∀ (fs : List FieldMeta) (vs : List Val) (c e k : Nat),
    Chain fs c e → k < c → fieldsBit fs vs k = false
  | [], _, _, _, _, _, _ => by simp [fieldsBit]
  | _ :: _, [], _, _, _, _, _ => by simp [fieldsBit]
  | f :: fs, v :: vs, c, e, k, hch, hk => by
    simp only [Chain] at hch
    simp only [fieldsBit]
    by_cases hs : f.skip = true
    · simp only [hs, if_true] at hch
      simp [hs, fieldsBit_below fs vs c e k hch hk]
    · simp only [hs] at hch
      have : ¬ f.bitStart ≤ k := by have := hch.1; omega
      have h2 := fieldsBit_below fs vs f.bitEnd e k hch.2.2 (by have := hch.2.1.le; omega)
      simp [this, h2]

/-- A value below `2^w` occupying the `w ≤ 8` declared bits is what `extractBits` returns. -/
theorem extract_small {packed : List Nat} (hp : AllBytes packed) {s w x : Nat} (hw0 : 0 < w) (hw : w ≤ 8)
    (hx : x < 2 ^ w) (h : ∀ j, j < w → bitAt packed (s + j) = bitAt [x] j) : extractBits packed s w = [x] := by
  have hx8 : x < 256 := Nat.lt_of_lt_of_le hx (by
    calc 2 ^ w ≤ 2 ^ 8 := Nat.pow_le_pow_right (by omega) hw
      _ = 256 := by decide)
  apply bytes_ext
  · rw [extractBits_length]; simp; omega
  · exact allBytes_extractBits _ _ _
  · rw [allBytes_cons]; exact ⟨hx8, allBytes_nil⟩
  · intro j
    rw [extractBits_bits hp]
    by_cases hj : j < w
    · simp [hj, h j hj]
    · simp only [hj, decide_false, Bool.false_and]
      by_cases hj8 : j < 8
      · rw [bitAt_singleton _ _ hj8]
        symm
        apply Nat.testBit_lt_two_pow
        exact Nat.lt_of_lt_of_le hx (Nat.pow_le_pow_right (by omega) (by omega))
      · symm
        exact bitAt_of_length_le (by simp only [List.length_singleton]; omega)

/-- A multi-byte encoding sitting in a (possibly longer) byte-aligned slot: `extractBits` returns it zero padded. -/
theorem extract_big {packed encb : List Nat} (hp : AllBytes packed) (he : AllBytes encb) {s n : Nat}
    (hn : encb.length ≤ n) (h : ∀ j, j < 8 * n → bitAt packed (s + j) = bitAt encb j) :
    extractBits packed s (8 * n) = encb ++ zeros (n - encb.length) := by
  apply bytes_ext
  · rw [extractBits_length]; simp [zeros]; omega
  · exact allBytes_extractBits _ _ _
  · rw [allBytes_append]; exact ⟨he, allBytes_zeros _⟩
  · intro j
    rw [extractBits_bits hp]
    by_cases hj : j / 8 < encb.length
    · have : j < 8 * n := by omega
      rw [bitAt_append_left hj]
      simp [this, h j this]
    · rw [bitAt_append_right (by omega), bitAt_zeros]
      by_cases hj2 : j < 8 * n
      · simp [hj2, h j hj2, bitAt_of_length_le (Nat.le_of_not_lt hj)]
      · simp [hj2]

/-- One field: decoding the declared bits of an image that holds the field's encoding there gives the value. -/
theorem decodeField_roundtrip {f : FieldMeta} {v : Val} {packed : List Nat}
    (hns : f.skip = false) (hsh : f.Shaped) (hpos : 0 < f.bitsLen) (hlaw : Lawful f.codec)
    (hfit : f.slotFits = true) (hgen : f.ty.isU8OrBool = true → f.bitsLen < 16)
    (hval : f.validVal v) (hp : AllBytes packed)
    (hbits : ∀ j, j < f.bitsLen → bitAt packed (f.bitStart + j) = bitAt (fieldEnc f v) j) :
    decodeField f (extractBits packed f.bitStart f.bitsLen) = .ok v := by
  unfold FieldMeta.validVal at hval
  unfold decodeField
  simp only [hns, Bool.false_eq_true, if_false] at hval
  by_cases hs : f.bitsLen ≤ 8
  · simp only [hs, if_true] at hval ⊢
    by_cases hb : f.ty = .bool
    · simp only [hb, if_true] at hval ⊢
      obtain ⟨b, rfl⟩ := hval
      have hx : (if b then 1 else 0 : Nat) < 2 ^ f.bitsLen := by
        have : 2 ^ 1 ≤ 2 ^ f.bitsLen := Nat.pow_le_pow_right (by omega) hpos
        cases b <;> simp <;> omega
      rw [extract_small hp hpos hs hx (by simpa [fieldEnc, hb, TyTok.isU8OrBool, asU8] using hbits)]
      cases b <;> simp
    · simp only [hb, if_false] at hval ⊢
      by_cases hu : f.ty = .u8
      · simp only [hu, if_true] at hval ⊢
        obtain ⟨i, rfl, hi⟩ := hval
        have hi8 : i < 256 := Nat.lt_of_lt_of_le hi (by
          calc 2 ^ f.bitsLen ≤ 2 ^ 8 := Nat.pow_le_pow_right (by omega) hs
            _ = 256 := by decide)
        have hasu : asU8 (.int (i : Int)) = some i := by
          simp only [asU8]; congr 1; omega
        rw [extract_small hp hpos hs hi (by simpa [fieldEnc, hu, TyTok.isU8OrBool, hasu] using hbits)]
        simp
      · simp only [hu, if_false] at hval ⊢
        obtain ⟨hv, e, he, hlt⟩ := hval
        have hnu : f.ty.isU8OrBool = false := by
          cases h : f.ty.isU8OrBool
          · rfl
          · rcases (isU8OrBool_iff _).mp h with h' | h' <;> contradiction
        rw [extract_small hp hpos hs hlt (by simpa [fieldEnc, hnu, he] using hbits)]
        exact hlaw.roundtrip v [e] hv he
  · have hbig : 8 < f.bitsLen := by omega
    simp only [hs, if_false] at hval ⊢
    obtain ⟨e1, e2, e3, _, _, e6⟩ := hsh.big_facts hbig
    have hnu : f.ty.isU8OrBool = false := by
      cases h : f.ty.isU8OrBool
      · rfl
      · have := hgen h
        have := hsh.small_or_big
        omega
    obtain ⟨encb, henc⟩ := hlaw.enc_ok v hval
    obtain ⟨hl, hab⟩ := hlaw.enc_len v encb henc
    have hfit' : encb.length ≤ f.byteEnd - f.byteStart := by
      simp [FieldMeta.slotFits, hns, hs, FieldMeta.bytesLen] at hfit
      have := of_decide_eq_true hfit
      omega
    rw [e6, extract_big hp hab hfit' (by
      intro j hj
      have := hbits j (by omega)
      simpa [fieldEnc, hnu, henc] using this)]
    rw [hlaw.dec_prefix _ (by simp; omega), ← hl, List.take_left' rfl]
    exact hlaw.roundtrip v encb hval henc

/-- All fields: if the image holds exactly the declared bits of `vs`, the specification reads `vs` back. -/
theorem readFieldsSpec_roundtrip : ∀ (fs : List FieldMeta) (vs : List Val) (c e : Nat) (packed : List Nat),
    Chain fs c e → (∀ f ∈ fs, f.skip = false → 0 < f.bitsLen) → (∀ f ∈ fs, Lawful f.codec) →
    (∀ f ∈ fs, f.slotFits = true) → (∀ f ∈ fs, f.skip = false → f.ty.isU8OrBool = true → f.bitsLen < 16) →
    validVals fs vs → AllBytes packed → (∀ k, c ≤ k → bitAt packed k = fieldsBit fs vs k) →
    readFieldsSpec fs packed = .ok vs
  | [], [], _, _, _, _, _, _, _, _, _, _, _ => rfl
  | [], _ :: _, _, _, _, _, _, _, _, _, hv, _, _ => by simp [validVals] at hv
  | _ :: _, [], _, _, _, _, _, _, _, _, hv, _, _ => by simp [validVals] at hv
  | f :: fs, v :: vs, c, e, packed, hch, hpos, hlaw, hfit, hgen, hv, hp, hbits => by
    simp only [validVals] at hv
    simp only [Chain] at hch
    simp only [readFieldsSpec]
    by_cases hs : f.skip = true
    · simp only [hs, if_true] at hch ⊢
      have hvd : v = .dflt := by simpa [FieldMeta.validVal, hs] using hv.1
      rw [readFieldsSpec_roundtrip fs vs c e packed hch (fun g hg => hpos g (List.mem_cons_of_mem _ hg))
        (fun g hg => hlaw g (List.mem_cons_of_mem _ hg)) (fun g hg => hfit g (List.mem_cons_of_mem _ hg))
        (fun g hg => hgen g (List.mem_cons_of_mem _ hg)) hv.2 hp
        (fun k hk => by simpa [fieldsBit, hs] using hbits k hk)]
      simp [bindO, hvd]
    · have hs' : f.skip = false := by simpa using hs
      simp only [hs] at hch
      obtain ⟨hc, hsh, hrest⟩ := hch
      have hle := hsh.le
      simp only [hs', Bool.false_eq_true, if_false]
      have hfield : ∀ j, j < f.bitsLen → bitAt packed (f.bitStart + j) = bitAt (fieldEnc f v) j := by
        intro j hj
        have hj' : f.bitStart + j < f.bitEnd := by simp only [FieldMeta.bitsLen] at hj; omega
        rw [hbits _ (by omega)]
        simp [fieldsBit, hs', hj', fieldsBit_below fs vs f.bitEnd e _ hrest hj']
      rw [decodeField_roundtrip hs' hsh (hpos f (List.mem_cons_self ..) hs') (hlaw f (List.mem_cons_self ..))
        (hfit f (List.mem_cons_self ..)) (hgen f (List.mem_cons_self ..) hs') hv.1 hp hfield]
      rw [readFieldsSpec_roundtrip fs vs f.bitEnd e packed hrest (fun g hg => hpos g (List.mem_cons_of_mem _ hg))
        (fun g hg => hlaw g (List.mem_cons_of_mem _ hg)) (fun g hg => hfit g (List.mem_cons_of_mem _ hg))
        (fun g hg => hgen g (List.mem_cons_of_mem _ hg)) hv.2 hp
        (fun k hk => by
          have : ¬ k < f.bitEnd := by omega
          rw [hbits k (by omega)]
          simp [fieldsBit, this])]
      simp [bindO]

/-! ### valid values never make the generated write code panic -/

theorem writeField_ok {f : FieldMeta} {v : Val} {buf : List Nat}
    (hsh : f.skip = false → f.Shaped) (hpos : f.skip = false → 0 < f.bitsLen)
    (hend : f.skip = false → f.bitEnd ≤ 8 * buf.length) (hlaw : Lawful f.codec) (hfit : f.slotFits = true)
    (hgen : f.skip = false → f.ty.isU8OrBool = true → f.bitsLen < 16) (hval : f.validVal v) :
    ∃ buf', writeField f v buf = .ok buf' ∧ buf'.length = buf.length := by
  unfold writeField
  by_cases hs : f.skip = true
  · exact ⟨buf, by simp [hs], rfl⟩
  have hns : f.skip = false := by simpa using hs
  have hsh := hsh hns; have hpos := hpos hns; have hend := hend hns; have hgen := hgen hns
  unfold FieldMeta.validVal at hval
  simp only [hns, Bool.false_eq_true, if_false] at hval ⊢
  by_cases hu : f.ty.isU8OrBool = true
  · have hsm : f.bitsLen ≤ 8 := by
      have := hgen hu
      rcases hsh.small_or_big with h' | h'
      · exact h'.1
      · omega
    obtain ⟨e1, e2, e3, _⟩ := hsh.small_facts hpos hsm
    have hlen : f.byteStart < buf.length := by omega
    simp only [hu, if_true, hsm] at hval ⊢
    have : ∃ x, asU8 v = some x := by
      rcases (isU8OrBool_iff _).mp hu with h' | h'
      · simp only [h', reduceCtorEq, if_false, if_true] at hval
        obtain ⟨i, rfl, _⟩ := hval
        exact ⟨_, rfl⟩
      · simp only [h', if_true] at hval
        obtain ⟨b, rfl⟩ := hval
        exact ⟨_, rfl⟩
    obtain ⟨x, hx⟩ := this
    simp [hx, hlen]
  · have hnu : f.ty.isU8OrBool = false := by simpa using hu
    have hnb : f.ty ≠ .bool := fun h => by simp [h, TyTok.isU8OrBool] at hnu
    have hn8 : f.ty ≠ .u8 := fun h => by simp [h, TyTok.isU8OrBool] at hnu
    simp only [hnu, Bool.false_eq_true, if_false]
    by_cases hsm : f.bitsLen ≤ 8
    · obtain ⟨e1, e2, e3, e4⟩ := hsh.small_facts hpos hsm
      have hlen : f.byteStart < buf.length := by omega
      simp only [hsm, if_true, hnb, hn8, if_false] at hval
      obtain ⟨hv, e, he, _⟩ := hval
      have hcl : f.codec.len = 1 := by
        simpa [FieldMeta.slotFits, hns, hsm, hnu] using hfit
      simp [e4, Codec.packU, hcl, he, bindO, hlen]
    · have hbig : 8 < f.bitsLen := by omega
      obtain ⟨e1, e2, e3, e4, _, e6⟩ := hsh.big_facts hbig
      simp only [hsm, if_false] at hval
      obtain ⟨encb, henc⟩ := hlaw.enc_ok v hval
      obtain ⟨hl, _⟩ := hlaw.enc_len v encb henc
      have hr : f.byteStart ≤ f.byteEnd ∧ f.byteEnd ≤ buf.length := by omega
      have hfit' : f.codec.len ≤ f.byteEnd - f.byteStart := by
        simp [FieldMeta.slotFits, hns, hsm, FieldMeta.bytesLen] at hfit
        exact of_decide_eq_true hfit
      have hsl := slice_length (a := f.byteStart) hr.2
      simp only [e4, if_false, hr, and_self, if_true, Codec.packU, hsl]
      have : ¬ (f.byteEnd - f.byteStart < f.codec.len) := by omega
      simp only [this, if_false, henc, bindO]
      refine ⟨_, rfl, ?_⟩
      simp [hsl, hl]
      omega

theorem writeFields_ok : ∀ (fs : List FieldMeta) (vs : List Val) (buf : List Nat) (c e : Nat),
    Chain fs c e → (∀ f ∈ fs, f.skip = false → 0 < f.bitsLen) → (∀ f ∈ fs, Lawful f.codec) →
    (∀ f ∈ fs, f.slotFits = true) → (∀ f ∈ fs, f.skip = false → f.ty.isU8OrBool = true → f.bitsLen < 16) →
    validVals fs vs → e ≤ 8 * buf.length →
    ∃ buf', writeFields fs vs buf = .ok buf'
  | [], [], buf, _, _, _, _, _, _, _, _, _ => ⟨buf, rfl⟩
  | [], _ :: _, _, _, _, _, _, _, _, _, hv, _ => by simp [validVals] at hv
  | _ :: _, [], _, _, _, _, _, _, _, _, hv, _ => by simp [validVals] at hv
  | f :: fs, v :: vs, buf, c, e, hch, hpos, hlaw, hfit, hgen, hv, he => by
    simp only [validVals] at hv
    simp only [Chain] at hch
    have hchain' : ∃ c', Chain fs c' e ∧ (f.skip = false → f.Shaped ∧ f.bitEnd ≤ e) := by
      by_cases hs : f.skip = true
      · simp only [hs, if_true] at hch
        exact ⟨c, hch, fun h => by rw [hs] at h; cases h⟩
      · simp only [hs] at hch
        exact ⟨f.bitEnd, hch.2.2, fun _ => ⟨hch.2.1, hch.2.2.le⟩⟩
    obtain ⟨c', hc', hf⟩ := hchain'
    obtain ⟨b1, h1, hl1⟩ := writeField_ok (buf := buf) (fun h => (hf h).1) (hpos f (List.mem_cons_self ..))
      (fun h => by have := (hf h).2; omega) (hlaw f (List.mem_cons_self ..)) (hfit f (List.mem_cons_self ..))
      (hgen f (List.mem_cons_self ..)) hv.1
    obtain ⟨b2, h2⟩ := writeFields_ok fs vs b1 c' e hc' (fun g hg => hpos g (List.mem_cons_of_mem _ hg))
      (fun g hg => hlaw g (List.mem_cons_of_mem _ hg)) (fun g hg => hfit g (List.mem_cons_of_mem _ hg))
      (fun g hg => hgen g (List.mem_cons_of_mem _ hg)) hv.2 (by omega)
    exact ⟨b2, by simp [writeFields, h1, bindO, h2]⟩

end Ec.Wire
