/- Helper lemmas for C09, part 3: `init` as a whole on a ring of 1..65535 devices. -/
import EcModel.Lemmas.InitLemmas2

namespace Ec.Init

open Ec Ec.Net Ec.Gen.Init

/-- Phase 1 log of a ring of `n` devices. -/
def phase1Log (n : Nat) : List Entry1 :=
  [(Tok1.brd REG_Type, bExecutors n)] ++ resetLog n ++
    (List.range' 0 n).map fun j => (Tok1.apwr j REG_ConfiguredStationAddress, [j])

/-- `init` on a non-empty ring of at most 65535 devices: the count is the ring length, the reset puts
    everybody in INIT, the first loop hands out `0x1000 + i`, and the rest runs on that. -/
theorem init_eq (maxSub : Nat) (caps : List Nat) (assign : Record → Option Nat) (iters : Nat) (ring : List Dev)
    (h0 : ring ≠ []) (h : ring.length ≤ 65535) :
    init maxSub caps assign iters ring =
      let n := ring.length
      let r := afterAssign maxSub caps assign iters n ((List.range n).map cfgAddr) (List.replicate n 1)
        (ring.map (·.info))
      ⟨r.1, (List.range n).map cfgAddr, r.2.1, phase1Log n, r.2.2⟩ := by
  have hpos : 0 < ring.length := List.length_pos_iff.mpr h0
  have hn : wkc (bExecutors ring.length) = ring.length := wkc_bExecutors _ h
  have hals : writeAt (bExecutors ring.length) 1 (ring.map (·.al)) = List.replicate ring.length 1 := by
    have := writeAt_broadcast 1 (ring.map (·.al))
    simpa using this
  have hloop := assignLoop_ok ring.length (ring.map (·.station)) (by simp) (by omega) ring.length 0
    ([(Tok1.brd REG_Type, bExecutors ring.length)] ++ resetLog ring.length) (by omega)
  rw [assigned_zero] at hloop
  have hall : assigned (0 + ring.length) (ring.map (·.station)) = (List.range ring.length).map cfgAddr := by
    have := assigned_all (ring.map (·.station))
    simpa using this
  rw [hall] at hloop
  unfold init
  simp only [hn]
  rw [if_neg (by omega)]
  simp only [hals, hloop, phase1Log]

theorem emptyGroups_getD (caps : List Nat) (k : Nat) :
    (caps.map fun _ => ([] : List Record)).getD k [] = [] := by
  rw [List.getD_eq_getElem?_getD, List.getElem?_map]
  cases caps[k]? <;> rfl

theorem emptyGroups_flatten (caps : List Nat) :
    (caps.map fun _ => ([] : List Record)).flatten = [] := by
  induction caps with
  | nil => rfl
  | cons c cs ih => simpa using ih

/-- What `afterAssign` can do on a freshly reset, fully assigned, responsive ring. -/
theorem afterAssign_spec (maxSub : Nat) (caps : List Nat) (assign : Record → Option Nat) (iters n : Nat)
    (infos : List DevInfo) (hn : n ≤ 65535) (hinf : infos.length = n) :
    let r := afterAssign maxSub caps assign iters n ((List.range n).map cfgAddr) (List.replicate n 1) infos
    (maxSub < n → r.1 = .err .capSub) ∧
    (∀ gs, r.1 = .ok gs →
      n ≤ maxSub ∧
      gs.flatten.Perm ((List.range n).map (recordOf infos)) ∧
      gs.length = caps.length ∧
      (∀ k rec, rec ∈ gs.getD k [] → assign rec = some k) ∧
      (∀ a ∈ r.2.1, a = 2) ∧ r.2.1.length = n) := by
  intro r
  have hal : ∀ p, p < n → (List.replicate n 1)[p]?.map (· % 16) = some 1 := by
    intro p hp; simp [List.getElem?_replicate, hp]
  have hnl := newLoop_result maxSub n (List.replicate n 1) infos (by omega) hinf hal n 0 [] [] (by omega)
    (by omega) (by simp)
  have hinv0 : InitOrPreop (List.replicate n 1) := by
    intro a ha; simp at ha; exact Or.inl ha.2
  show (maxSub < n → r.1 = .err .capSub) ∧ _
  have hr : r = afterAssign maxSub caps assign iters n ((List.range n).map cfgAddr) (List.replicate n 1) infos := rfl
  unfold afterAssign at hr
  rcases hnew : newLoop maxSub ((List.range n).map cfgAddr) (List.replicate n 1) infos n 0 [] [] with ⟨o, l⟩
  rw [hnew] at hnl hr
  simp only at hnl
  by_cases hcap : n ≤ maxSub
  · rw [if_pos hcap] at hnl
    subst hnl
    simp only at hr
    refine ⟨fun h => absurd hcap (by omega), ?_⟩
    intro gs hgs
    rcases hdc : dcPhase ((List.range n).map cfgAddr) infos ((List.range n).map (recordOf infos)) iters with ⟨o2, l2⟩
    rw [hdc] at hr
    cases o2 with
    | err e => simp only at hr; rw [hr] at hgs; cases hgs
    | panic s => simp only at hr; rw [hr] at hgs; cases hgs
    | ok u =>
      simp only at hr
      cases hg : groupLoop maxSub caps assign ((List.range n).map (recordOf infos)) ⟨caps.map fun _ => [], []⟩ with
      | err e => rw [hg] at hr; simp only at hr; rw [hr] at hgs; cases hgs
      | panic s => rw [hg] at hr; simp only at hr; rw [hr] at hgs; cases hgs
      | ok g =>
        rw [hg] at hr
        simp only at hr
        rcases hp : preopGroups ((List.range n).map cfgAddr) infos g.members g.order.reverse (List.replicate n 1) (l ++ l2)
          with ⟨o3, als', l3⟩
        rw [hp] at hr
        cases o3 with
        | err e => simp only at hr; rw [hr] at hgs; cases hgs
        | panic s => simp only at hr; rw [hr] at hgs; cases hgs
        | ok a =>
          simp only at hr
          have hpre := preopGroups_als _ _ _ _ _ _ _ _ _ hp hinv0
          by_cases hw : wkc (bExecutors a.length) ≠ n
          · rw [if_pos hw] at hr; rw [hr] at hgs; cases hgs
          · rw [if_neg hw] at hr
            by_cases hb : brdOr a % 16 ≠ 2
            · rw [if_pos hb] at hr; rw [hr] at hgs; cases hgs
            · rw [if_neg hb] at hr
              rw [hr] at hgs
              simp only at hgs
              injection hgs with hgs
              subst hgs
              have hperm := groupLoop_perm maxSub caps assign _ _ _ hg
              have hresp := groupLoop_respects maxSub caps assign _ _ _ hg (by
                intro k rec hrec
                simp only [emptyGroups_getD] at hrec
                cases hrec)
              refine ⟨hcap, ?_, ?_, hresp, ?_, ?_⟩
              · have := hperm.1
                simp only [emptyGroups_flatten, List.nil_append] at this
                exact this
              · have := hperm.2
                simpa using this
              · rw [hr]
                exact brdOr_preop a hpre.1 (by omega)
              · rw [hr]
                simpa using hpre.2
  · rw [if_neg hcap] at hnl
    subst hnl
    simp only at hr
    refine ⟨fun _ => by rw [hr], ?_⟩
    intro gs hgs
    rw [hr] at hgs
    cases hgs

end Ec.Init
