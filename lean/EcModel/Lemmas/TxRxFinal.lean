/-
  Helper lemmas for C07: from the invariant to statements about a whole run of the loop.
-/
import EcModel.Lemmas.TxRxInv

namespace Ec.TxRx
open Ec

/-- Where the clock datagram is, in terms of the frames alone. -/
def DcFrames (c : Cfg) (frames : List Frame) : Prop :=
  match c.dc with
  | none => ∀ d ∈ allDescs frames, isFrmw d = false
  | some r => frames = [] ∨ ∃ rest, allDescs frames = frmwDesc r :: rest ∧ ∀ d ∈ rest, isFrmw d = false

theorem DcOk.toFrames {c : Cfg} {s : St} (h : DcOk c s) : DcFrames c s.frames := by
  unfold DcOk at h; unfold DcFrames
  cases hd : c.dc with
  | none => rw [hd] at h; exact h.2
  | some r =>
    rw [hd] at h; simp only at h ⊢
    cases ht : s.timeRead with
    | false => rw [ht] at h; simp at h; exact Or.inl h
    | true => rw [ht] at h; simp only [if_true] at h; exact Or.inr h

/-- What holds of the state a run ends in, whatever the outcome. -/
structure WInv (c : Cfg) (image0 : List Nat) (bound : Nat) (s : St) : Prop where
  frames : ∀ fr ∈ s.frames, FrameOk c fr
  count : s.frames.length ≤ bound
  len : s.image.length = image0.length
  outs : s.image.drop c.readLen = image0.drop c.readLen
  dc : DcFrames c s.frames

theorem FrInv.weak {c : Cfg} {image0 : List Nat} {bound : Nat} {s : St} (h : FrInv c image0 bound s) :
    WInv c image0 bound s :=
  ⟨h.frames, by have := h.count; omega, h.len, h.outs, h.dc.toFrames⟩

theorem FrInv.init (c : Cfg) (image : List Nat) (resps : List (List RPdu)) (idx0 : Nat) :
    FrInv c image (Phi c (initSt c image resps idx0)) (initSt c image resps idx0) := by
  refine ⟨rfl, Nat.zero_le _, Nat.zero_le _, by simp [initSt], ?_, ?_, ?_, ?_, rfl, rfl, ?_, ?_⟩
  · simp [initSt, lrws, allDescs, allDgrams, Tiles]
  · simp [initSt, fprds, allDescs, allDgrams]
  · intro fr hfr; simp [initSt] at hfr
  · unfold DcOk; cases c.dc <;> simp [initSt, allDescs, allDgrams]
  · simp [initSt, lrwData, allDescs, allDgrams]
  · simp [initSt]

/-- The state after one more pass, whatever its outcome. -/
theorem FrInv.step_weak {c : Cfg} {image0 : List Nat} {bound : Nat} {s : St} (hc : CfgOk c image0.length)
    (hi : FrInv c image0 bound s) : WInv c image0 bound (step c s).st := by
  have hs : s.sent ≤ s.image.length := by rw [hi.len]; exact hi.sent
  have hc' : CfgOk c s.image.length := by rw [hi.len]; exact hc
  -- one more frame on the wire
  have snoc : ∀ (s' : St) (fr : Frame), FrameGood c s fr → s'.frames = s.frames ++ [fr] →
      s'.image.length = s.image.length → s'.image.drop c.readLen = s.image.drop c.readLen →
      WInv c image0 bound s' := by
    intro s' fr hg hfr hl hd
    refine ⟨?_, ?_, by rw [hl, hi.len], by rw [hd, hi.outs], ?_⟩
    · intro f hf; rw [hfr] at hf
      rcases List.mem_append.1 hf with h | h
      · exact hi.frames f h
      · simp at h; subst h; exact hg.ok
    · have := phi_pos hc' hg; have := hi.count; rw [hfr]; simp; omega
    · have := (hi.dc.snoc (s' := { s' with timeRead := s.timeRead || needDc c s }) hfr hg.descs rfl).toFrames
      exact this
  rcases step_cases hc' hs with ⟨hd, _⟩ | ⟨fr, idx', hg, ⟨_, hf⟩ | ⟨r, rs, hr, hcn⟩⟩
  · rw [hd]; exact hi.weak
  · rw [hf]; exact snoc _ fr hg rfl rfl rfl
  · rw [hcn]
    have hk : ∀ k, (if remOf s = 0 then none else some (kOf c s)) = some k →
        ({ sentState s fr idx' (tOf c s) with resps := rs } : St).sent + k
          ≤ ({ sentState s fr idx' (tOf c s) with resps := rs } : St).image.length := by
      intro k hk
      split at hk
      · cases hk
      · cases hk; simp only [sentState]; unfold kOf remOf; omega
    have ho := consume_other c (needDc c s) (if remOf s = 0 then none else some (kOf c s)) (remOf s)
      { sentState s fr idx' (tOf c s) with resps := rs } r hk
    exact snoc _ fr hg ho.1 ho.2.2.2.2.2.1 (ho.2.2.2.2.2.2 c.readLen (fun k _ => Nat.min_le_right _ _))

/-- A pass either sends nothing (and then, in the clock variants, the clock was read before) or appends one frame. -/
theorem step_frames {c : Cfg} {s : St} (hc : CfgOk c s.image.length) (hs : s.sent ≤ s.image.length) :
    ((step c s).st.frames = s.frames ∧ (c.dc.isSome = true → s.timeRead = true)) ∨
    ∃ fr, (step c s).st.frames = s.frames ++ [fr] := by
  rcases step_cases hc hs with ⟨hd, _, _, h3⟩ | ⟨fr, idx', hg, ⟨_, hf⟩ | ⟨r, rs, hr, hcn⟩⟩
  · left; rw [hd]; exact ⟨rfl, h3⟩
  · right; rw [hf]; exact ⟨fr, rfl⟩
  · right; rw [hcn]
    have hk : ∀ k, (if remOf s = 0 then none else some (kOf c s)) = some k →
        ({ sentState s fr idx' (tOf c s) with resps := rs } : St).sent + k
          ≤ ({ sentState s fr idx' (tOf c s) with resps := rs } : St).image.length := by
      intro k hk
      split at hk
      · cases hk
      · cases hk; simp only [sentState]; unfold kOf remOf; omega
    exact ⟨fr, (consume_other c (needDc c s) (if remOf s = 0 then none else some (kOf c s)) (remOf s)
      { sentState s fr idx' (tOf c s) with resps := rs } r hk).1⟩

theorem step_fail_not_fuel {c : Cfg} {s s' : St} {e : TxErr} (hc : CfgOk c s.image.length)
    (hs : s.sent ≤ s.image.length) (h : step c s = .fail s' e) : e ≠ .fuel := by
  rcases step_cases hc hs with ⟨hd, _⟩ | ⟨fr, idx', hg, ⟨_, hf⟩ | ⟨r, rs, hr, hcn⟩⟩
  · rw [hd] at h; cases h
  · rw [hf] at h; cases h; simp
  · rw [hcn] at h
    rcases consume_fail_kinds h with h1 | h1 <;> rw [h1] <;> simp

theorem FrInv.continue {c : Cfg} {image0 : List Nat} {bound : Nat} {s s' : St} (hc : CfgOk c image0.length)
    (hi : FrInv c image0 bound s) (hst : step c s = .continue s') : FrInv c image0 bound s' :=
  hi.advance hc (advance_of_continue (by rw [hi.len]; exact hc) (by rw [hi.len]; exact hi.sent) hst)

/-- Whatever the outcome, the final state satisfies the weak invariant. -/
theorem loop_weak {c : Cfg} {image0 : List Nat} {bound : Nat} (hc : CfgOk c image0.length) (fuel : Nat) (s : St)
    (hi : FrInv c image0 bound s) : WInv c image0 bound (loop c fuel s).1 := by
  obtain ⟨sl, hl, hcase⟩ := loop_final c (FrInv c image0 bound) (fun s s' h hs => h.continue hc hs) fuel s hi
  rcases hcase with h | ⟨s', hst, h⟩ | ⟨s', e, hst, h⟩ | ⟨s', w, hst, h⟩
  · rw [h]; exact hl.weak
  · rw [h]; have := hl.step_weak hc; rw [hst] at this; exact this
  · rw [h]; have := hl.step_weak hc; rw [hst] at this; exact this
  · rw [h]; have := hl.step_weak hc; rw [hst] at this; exact this

/-- A run that ends normally ends in a state satisfying the invariant, with the whole image sent and every
    SubDevice checked. -/
theorem loop_ok {c : Cfg} {image0 : List Nat} {bound : Nat} (hc : CfgOk c image0.length) (fuel : Nat) (s : St)
    (hi : FrInv c image0 bound s) (hok : (loop c fuel s).2 = .ok ()) :
    FrInv c image0 bound (loop c fuel s).1 ∧ (loop c fuel s).1.sent = image0.length ∧
      (loop c fuel s).1.checks = c.addrs.length := by
  obtain ⟨sl, hl, hcase⟩ := loop_final c (FrInv c image0 bound) (fun s s' h hs => h.continue hc hs) fuel s hi
  rcases hcase with h | ⟨s', hst, h⟩ | ⟨s', e, hst, h⟩ | ⟨s', w, hst, h⟩
  · rw [h] at hok; cases hok
  · rw [h]
    have hs : sl.sent ≤ sl.image.length := by rw [hl.len]; exact hl.sent
    have fin : ∀ t : St, FrInv c image0 bound t → remOf t = 0 → c.addrs.length ≤ t.checks →
        FrInv c image0 bound t ∧ t.sent = image0.length ∧ t.checks = c.addrs.length := by
      intro t ht hr hn
      have := ht.sent; have := ht.checks; have := ht.len
      refine ⟨ht, ?_, by omega⟩
      unfold remOf at hr; omega
    rcases done_cases (by rw [hl.len]; exact hc) hs hst with ⟨he, hr, hn, _⟩ | ⟨ha, hr, hn⟩
    · subst he
      refine fin s' hl hr ?_
      rcases hn with hn | hn
      · exact hn
      · have := hl.subs; rw [hn] at this
        have := List.drop_eq_nil_iff.1 this.symm; exact this
    · have hi' := hl.advance hc ha
      obtain ⟨fr, r, _, _, _, _, _, hlen, _, hsent, _, _⟩ := advance_facts hs ha
      refine fin s' hi' ?_ hn
      unfold remOf at hr ⊢; rw [hlen, hsent, if_pos (by unfold remOf; exact hr)]; omega
  · rw [h] at hok; cases hok
  · rw [h] at hok; cases hok

/-- The fuel is never the reason a run stops. -/
theorem loop_terminates {c : Cfg} {image0 : List Nat} {bound : Nat} (hc : CfgOk c image0.length) :
    ∀ (fuel : Nat) (s : St), FrInv c image0 bound s → Phi c s < fuel → (loop c fuel s).2 ≠ .err .fuel
  | 0, s, _, hlt => by omega
  | fuel + 1, s, hi, hlt => by
    have hs : s.sent ≤ s.image.length := by rw [hi.len]; exact hi.sent
    have hc' : CfgOk c s.image.length := by rw [hi.len]; exact hc
    cases hst : step c s with
    | «continue» s' =>
      have ha := advance_of_continue hc' hs hst
      obtain ⟨fr, r, hg, _, _, hsubs, _, hlen, _, hsent, htr, _⟩ := advance_facts hs ha
      have hrem' : remOf s' = remOf s - (if remOf s = 0 then 0 else kOf c s) := by
        have e1 : remOf s' = s.image.length - s'.sent := by unfold remOf; rw [hlen]
        have hk := kOf_le c s
        rw [e1, hsent]
        by_cases hr : remOf s = 0
        · rw [if_pos hr]; unfold remOf; omega
        · rw [if_neg hr]; unfold remOf; omega
      have := phi_advance hc hg hrem' hsubs htr
      simp only [loop, hst]
      exact loop_terminates hc fuel s' (hi.advance hc ha) (by omega)
    | done s' => simp [loop, hst]
    | fail s' e => simp only [loop, hst]; intro h; cases h; exact step_fail_not_fuel hc' hs hst rfl
    | panic s' w => simp [loop, hst]

/-- In the clock variants a run that is not cut short by the fuel has sent at least one frame. -/
theorem dc_nonempty {c : Cfg} {image0 : List Nat} {bound : Nat} (hc : CfgOk c image0.length)
    (hdc : c.dc.isSome = true) (fuel : Nat) (s : St) (hi : FrInv c image0 bound s)
    (hnf : (loop c fuel s).2 ≠ .err .fuel) : (loop c fuel s).1.frames ≠ [] := by
  obtain ⟨sl, hl, hcase⟩ := loop_final c (FrInv c image0 bound) (fun s s' h hs => h.continue hc hs) fuel s hi
  have hs : sl.sent ≤ sl.image.length := by rw [hl.len]; exact hl.sent
  have hc' : CfgOk c sl.image.length := by rw [hl.len]; exact hc
  have key : (step c sl).st.frames ≠ [] := by
    rcases step_frames hc' hs with ⟨he, ht⟩ | ⟨fr, he⟩
    · rw [he]
      have hd := hl.dc; unfold DcOk at hd
      cases hdd : c.dc with
      | none => rw [hdd] at hdc; simp at hdc
      | some r =>
        rw [hdd] at hd; simp only [ht hdc, if_true] at hd
        obtain ⟨rest, hrest, _⟩ := hd
        intro hnil; rw [hnil] at hrest; simp [allDescs, allDgrams] at hrest
    · rw [he]; simp
  rcases hcase with h | ⟨s', hst, h⟩ | ⟨s', e, hst, h⟩ | ⟨s', w, hst, h⟩
  · rw [h] at hnf; exact absurd rfl hnf
  · rw [h]; rw [hst] at key; exact key
  · rw [h]; rw [hst] at key; exact key
  · rw [h]; rw [hst] at key; exact key

theorem phi_init_le {c : Cfg} {image : List Nat} {n : Nat} (hc : CfgOk c n) (resps : List (List RPdu)) (idx0 : Nat) :
    Phi c (initSt c image resps idx0) < fuelFor c image := by
  have := hc.capLo
  have h1 : ceilDiv (remOf (initSt c image resps idx0)) (c.cap - 28) ≤ image.length := by
    have : remOf (initSt c image resps idx0) = image.length := by simp [remOf, initSt]
    rw [this]; exact ceilDiv_le (by omega)
  have h2 : ceilDiv (initSt c image resps idx0).subs.length (perFrame c) ≤ c.addrs.length := by
    have : (initSt c image resps idx0).subs = c.addrs := rfl
    rw [this]; exact ceilDiv_le (by unfold perFrame; omega)
  unfold Phi fuelFor
  split <;> omega

end Ec.TxRx
