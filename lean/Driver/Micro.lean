import EcModel.Drv.Micro
def main : IO Unit := Ec.Drv.runDriver Ec.Drv.Micro.handle
