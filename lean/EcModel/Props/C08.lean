/-
  C08 — process data of one SubDevice reaches that SubDevice and nothing else.
  Property theorems only; the model is `EcModel/Config.lean`, helper lemmas are in `EcModel/Lemmas/Config*.lean`.

  Setting: `devs` are the members of one group with the state `init` leaves them in (`Fresh`: every FMMU entity
  disabled — `members_fresh` shows that `Net.members` is such a list); `start` is the group's logical start
  address, `maxPdi` its declared capacity. Theorems are stated for the overflow-checking build
  (`Mode.checked`); `configuration_total` shows that for EVERY PDO configuration the Rust types allow the
  configuration never panics and computes the same outcome in the wrapping build, so every one of them holds
  in both build modes (`release_agrees_with_debug` is the hypothesis-free one-directional form).

  Three places where the code as it stands does NOT satisfy the property are kept visible as `_counterexample`
  theorems next to the `_partial` theorem that excludes exactly that class:
    * CoE path, several sync managers of one direction share one FMMU     → hypothesis `SharedContig`
    * EEPROM path, FMMU number := sync manager number                      → hypothesis `FmmuAvail`
    * a group whose configuration fails keeps its FMMUs programmed          → hypothesis "the other group fits"
  A fourth one — PDO bit lengths summed, multiplied by the oversampling factor and rounded in `u16`
  (c08/pdo-bit-length-u16-overflow: panic in checked builds, silently short windows in wrapping builds) — is
  REPAIRED: the sums are `u64`, the byte length is converted with `u16::try_from(..)?`. The former
  `bit_length_overflow_counterexample` is replaced by the full statements `configuration_total`,
  `exact_windows_or_error`, `network_total` and `registers_representable`; the old witnesses are kept as
  `bit_length_overflow_fixed`.
-/
import EcModel.Lemmas.ConfigTotal
import EcModel.Generated.Layouts
import EcModel.Generated.Config

namespace Ec.C08
open Ec Ec.Config

/-! ## Vocabulary of the statements -/

/-- Window of a device for a write (`true`: outputs) or read (`false`: inputs) service. -/
def winOf (st : DevState) (w : Bool) : Nat × Nat := if w then st.output else st.input

def dirOf (w : Bool) : Dir := if w then .output else .input

/-- Logical byte `a` lies in the window `win` of a group that starts at `start`. -/
def InWin (start : Nat) (win : Nat × Nat) (a : Nat) : Prop := start + win.1 ≤ a ∧ a < start + win.2

/-- The programmed FMMUs map the device's window byte for byte onto the programmed sync managers' physical
    ranges (in sync manager order), and nothing else of the logical address space onto this device. -/
def MapsExactly (start : Nat) (x : Device × DevState) : Prop :=
  ∀ (w : Bool) (a p : Nat),
    p ∈ fmmuMap x.2.regs.fmmu x.1.fmmuCount w a ↔
      InWin start (winOf x.2 w) a ∧
        physAt (smRanges x.1 x.2.regs (dirOf w)) (a - (start + (winOf x.2 w).1)) = some p

/-- Per-device form of the theorems below: both passes on one device (conclusions of `device_spec` in the
    vocabulary above). -/
theorem trace_summary {start : Nat} {t : Trace} (h0 : ∀ k, (t.st0.regs.fmmu k).enable = false)
    (hok : t.ok start) :
    start ≤ t.a ∧ start ≤ t.c ∧ t.a ≤ t.b ∧ t.c ≤ t.e ∧
    t.st2.input = (t.a - start, t.b - start) ∧ t.st2.output = (t.c - start, t.e - start) ∧
    t.st2.hasCoe = t.st0.hasCoe ∧
    t.b - t.a = windowLenSpec t.d t.st2.hasCoe .input ∧ t.e - t.c = windowLenSpec t.d t.st2.hasCoe .output ∧
    (FmmuAvail t.d t.st2.hasCoe → SharedContig t.d t.st2.regs t.st2.hasCoe → MapsExactly start (t.d, t.st2)) := by
  obtain ⟨d1, d2, d3, d4, d5, d6, d7, d8, d9, _, _, _, _, d13⟩ := device_spec h0 hok.1 hok.2
  refine ⟨d1, d2, d3, d4, d5, d6, d7, by rw [d7]; exact d8, by rw [d7]; exact d9, ?_⟩
  intro hav hct w a p
  rw [d7] at hav hct
  have := d13 hav hct a p
  cases w with
  | false =>
    simp only [winOf, dirOf, InWin, Bool.false_eq_true, if_false, d5]
    rw [this.1]
    have e1 : start + (t.a - start) = t.a := by omega
    have e2 : start + (t.b - start) = t.b := by omega
    rw [e1, e2]
    constructor
    · rintro ⟨h1, h2, h3⟩; exact ⟨⟨h1, h2⟩, h3⟩
    · rintro ⟨⟨h1, h2⟩, h3⟩; exact ⟨h1, h2, h3⟩
  | true =>
    simp only [winOf, dirOf, InWin, if_true, d6]
    rw [this.2]
    have e1 : start + (t.c - start) = t.c := by omega
    have e2 : start + (t.e - start) = t.e := by omega
    rw [e1, e2]
    constructor
    · rintro ⟨h1, h2, h3⟩; exact ⟨⟨h1, h2⟩, h3⟩
    · rintro ⟨⟨h1, h2⟩, h3⟩; exact ⟨h1, h2, h3⟩

/-! ## The layout of one group -/

/-- Every window lies inside the group's image, the image inside the declared capacity; all inputs come
    before all outputs (`read_pdi_len` separates them). -/
theorem windows_inside_image {start maxPdi : Nat} {devs : List (Device × DevState)} {g : GroupLayout}
    (hf : Fresh devs) (h : groupConfigureFmmus .checked start maxPdi devs = .ok g) :
    g.pdiLen ≤ maxPdi ∧ g.readLen ≤ g.pdiLen ∧
    ∀ x ∈ g.devs,
      x.2.input.1 ≤ x.2.input.2 ∧ x.2.input.2 ≤ g.readLen ∧
      g.readLen ≤ x.2.output.1 ∧ x.2.output.1 ≤ x.2.output.2 ∧ x.2.output.2 ≤ g.pdiLen := by
  obtain ⟨hl, hmax⟩ := configure_ok_iff.1 h
  obtain ⟨ts, p1, p2, t1, t2, t3, t4, t5, t6, t7, t8, t9⟩ := group_spec hf hl
  refine ⟨hmax, by omega, ?_⟩
  intro x hx
  rw [t2] at hx
  obtain ⟨t, ht, rfl⟩ := List.mem_map.1 hx
  obtain ⟨s1, s2, s3, s4, s5, s6, _⟩ := trace_summary (trace_fresh hf t1 ht) (t3 t ht)
  have b1 := tiling_mem t4 (t.a, t.b) (List.mem_map_of_mem (f := fun t => (t.a, t.b)) ht)
  have b2 := tiling_mem t5 (t.c, t.e) (List.mem_map_of_mem (f := fun t => (t.c, t.e)) ht)
  simp only at b1 b2
  simp only [s5, s6]
  omega

/-- All inputs before all outputs: any input window ends before any output window starts. -/
theorem inputs_before_outputs {start maxPdi : Nat} {devs : List (Device × DevState)} {g : GroupLayout}
    (hf : Fresh devs) (h : groupConfigureFmmus .checked start maxPdi devs = .ok g) :
    ∀ x ∈ g.devs, ∀ y ∈ g.devs, x.2.input.2 ≤ y.2.output.1 := by
  intro x hx y hy
  obtain ⟨_, _, hw⟩ := windows_inside_image hf h
  have := hw x hx
  have := hw y hy
  omega

/-- Windows of different devices of a group do not overlap: in group order each input window ends where the
    next begins or before, and likewise the output windows (together with `inputs_before_outputs`: all
    windows of a group are pairwise disjoint). -/
theorem windows_disjoint {start maxPdi : Nat} {devs : List (Device × DevState)} {g : GroupLayout}
    (hf : Fresh devs) (h : groupConfigureFmmus .checked start maxPdi devs = .ok g) :
    g.devs.Pairwise (fun x y => x.2.input.2 ≤ y.2.input.1 ∧ x.2.output.2 ≤ y.2.output.1) := by
  obtain ⟨hl, _⟩ := configure_ok_iff.1 h
  obtain ⟨ts, p1, p2, t1, t2, t3, t4, t5, _⟩ := group_spec hf hl
  rw [t2, List.pairwise_map]
  have q1 := List.pairwise_map.1 (tiling_pairwise t4)
  have q2 := List.pairwise_map.1 (tiling_pairwise t5)
  refine (q1.and q2).imp_of_mem ?_
  intro t t' ht ht' hr
  obtain ⟨_, _, _, _, s5, s6, _⟩ := trace_summary (trace_fresh hf t1 ht) (t3 t ht)
  obtain ⟨_, _, _, _, s5', s6', _⟩ := trace_summary (trace_fresh hf t1 ht') (t3 t' ht')
  simp only at hr
  simp only [s5, s6, s5', s6']
  omega

/-- Every window has exactly the byte length the PDO configuration requires: Σ over the direction's sync
    managers of ⌈(Σ PDO bits × oversampling) / 8⌉, from CoE (0x1C1x → 0x16xx/0x1Axx) or from the EEPROM. -/
theorem window_length {start maxPdi : Nat} {devs : List (Device × DevState)} {g : GroupLayout}
    (hf : Fresh devs) (h : groupConfigureFmmus .checked start maxPdi devs = .ok g) :
    ∀ x ∈ g.devs,
      x.2.input.2 - x.2.input.1 = windowLenSpec x.1 x.2.hasCoe .input ∧
      x.2.output.2 - x.2.output.1 = windowLenSpec x.1 x.2.hasCoe .output := by
  obtain ⟨hl, _⟩ := configure_ok_iff.1 h
  obtain ⟨ts, p1, p2, t1, t2, t3, _⟩ := group_spec hf hl
  intro x hx
  rw [t2] at hx
  obtain ⟨t, ht, rfl⟩ := List.mem_map.1 hx
  obtain ⟨s1, s2, s3, s4, s5, s6, _, s8, s9, _⟩ := trace_summary (trace_fresh hf t1 ht) (t3 t ht)
  simp only [s5, s6]
  omega

/-- The image is exactly as long as the windows require (no padding, nothing missing). -/
theorem image_length {start : Nat} {devs : List (Device × DevState)} {g : GroupLayout}
    (hf : Fresh devs) (h : groupLayout .checked start devs = .ok g) :
    g.readLen = natSum (g.devs.map fun x => windowLenSpec x.1 x.2.hasCoe .input) ∧
    g.pdiLen = g.readLen + natSum (g.devs.map fun x => windowLenSpec x.1 x.2.hasCoe .output) := by
  obtain ⟨ts, p1, p2, t1, t2, t3, t4, t5, t6, t7, t8, t9⟩ := group_spec hf h
  have e1 := tiling_sum t4
  have e2 := tiling_sum t5
  rw [List.map_map] at e1 e2
  have c1 : natSum (ts.map ((fun w : Nat × Nat => w.2 - w.1) ∘ fun t => (t.a, t.b))) =
      natSum (g.devs.map fun x => windowLenSpec x.1 x.2.hasCoe .input) := by
    rw [t2, List.map_map]; congr 1; apply List.map_congr_left
    intro t ht
    obtain ⟨_, _, _, _, _, _, _, s8, _⟩ := trace_summary (trace_fresh hf t1 ht) (t3 t ht)
    simpa using s8
  have c2 : natSum (ts.map ((fun w : Nat × Nat => w.2 - w.1) ∘ fun t => (t.c, t.e))) =
      natSum (g.devs.map fun x => windowLenSpec x.1 x.2.hasCoe .output) := by
    rw [t2, List.map_map]; congr 1; apply List.map_congr_left
    intro t ht
    obtain ⟨_, _, _, _, _, _, _, _, s9, _⟩ := trace_summary (trace_fresh hf t1 ht) (t3 t ht)
    simpa using s9
  rw [c1] at e1
  rw [c2] at e2
  omega

/-- A layout that does not fit the declared capacity is an error — `PdiTooLong` with the capacity and the
    length the layout needs (`image_length`) — and never a success. -/
theorem too_long_is_error {m : Mode} {start maxPdi : Nat} {devs : List (Device × DevState)} {g : GroupLayout}
    (h : groupLayout m start devs = .ok g) :
    (maxPdi < g.pdiLen → groupConfigureFmmus m start maxPdi devs = .err (.pdiTooLong maxPdi g.pdiLen)) ∧
    (g.pdiLen ≤ maxPdi → groupConfigureFmmus m start maxPdi devs = .ok g) := by
  unfold groupConfigureFmmus
  rw [h]
  simp only [Config.bind, checkLen]
  constructor
  · intro hl; simp [hl]
  · intro hl; simp [Nat.not_lt.2 hl]

/-! ## What the programmed devices do with the logical address space -/

/-- The MainDevice only programs byte-aligned FMMUs (start bit 0, end bit 7, physical start bit 0), which is
    what makes the byte-granular device semantics `Fmmu.hit` exact. -/
theorem fmmus_byte_aligned {start : Nat} {devs : List (Device × DevState)} {g : GroupLayout}
    (hf : Fresh devs) (h : groupLayout .checked start devs = .ok g) :
    ∀ x ∈ g.devs, ∀ k, (x.2.regs.fmmu k).enable = true →
      (x.2.regs.fmmu k).startBit = 0 ∧ (x.2.regs.fmmu k).endBit = 7 ∧ (x.2.regs.fmmu k).physBit = 0 := by
  obtain ⟨ts, p1, p2, t1, t2, t3, _⟩ := group_spec hf h
  intro x hx
  rw [t2] at hx
  obtain ⟨t, ht, rfl⟩ := List.mem_map.1 hx
  exact (device_spec (trace_fresh hf t1 ht) (t3 t ht).1 (t3 t ht).2).2.2.2.2.2.2.2.2.2.2.2.2.1

/-- PARTIAL (full statement: without the two hypotheses; see the two counterexamples below).
    Provided every FMMU entity the MainDevice chose exists in the controller (`FmmuAvail`) and — CoE path — the
    sync managers that share one FMMU are physically contiguous (`SharedContig`), the FMMUs and sync managers
    programmed into a device map exactly its windows onto its process data memory. Holds for every layout
    that was programmed, also one that is then rejected as too long. -/
theorem fmmu_maps_exactly_partial {start : Nat} {devs : List (Device × DevState)} {g : GroupLayout}
    (hf : Fresh devs) (h : groupLayout .checked start devs = .ok g) :
    ∀ x ∈ g.devs, FmmuAvail x.1 x.2.hasCoe → SharedContig x.1 x.2.regs x.2.hasCoe → MapsExactly start x := by
  obtain ⟨ts, p1, p2, t1, t2, t3, _⟩ := group_spec hf h
  intro x hx
  rw [t2] at hx
  obtain ⟨t, ht, rfl⟩ := List.mem_map.1 hx
  exact (trace_summary (trace_fresh hf t1 ht) (t3 t ht)).2.2.2.2.2.2.2.2.2

/-- The sync managers programmed for a direction have together exactly the length of the window, so every
    byte of a window has a physical byte (`physAt` is defined on the whole window). -/
theorem window_is_backed {start : Nat} {devs : List (Device × DevState)} {g : GroupLayout}
    (hf : Fresh devs) (h : groupLayout .checked start devs = .ok g) :
    ∀ x ∈ g.devs, ∀ w, rangesLen (smRanges x.1 x.2.regs (dirOf w)) = (winOf x.2 w).2 - (winOf x.2 w).1 := by
  obtain ⟨ts, p1, p2, t1, t2, t3, _⟩ := group_spec hf h
  intro x hx w
  rw [t2] at hx
  obtain ⟨t, ht, rfl⟩ := List.mem_map.1 hx
  obtain ⟨d1, d2, d3, d4, d5, d6, _, _, _, d10, d11, _⟩ := device_spec (trace_fresh hf t1 ht) (t3 t ht).1 (t3 t ht).2
  cases w with
  | false => simp only [winOf, dirOf, Bool.false_eq_true, if_false, d5, d10]; omega
  | true => simp only [winOf, dirOf, if_true, d6, d11]; omega

/-- Bytes of one device's window reach that device: every logical byte of the window is translated by the
    owner to the corresponding byte of its sync manager memory. -/
theorem window_reaches_owner {start : Nat} {devs : List (Device × DevState)} {g : GroupLayout}
    (hf : Fresh devs) (h : groupLayout .checked start devs = .ok g)
    {x : Device × DevState} (hx : x ∈ g.devs) (hav : FmmuAvail x.1 x.2.hasCoe)
    (hct : SharedContig x.1 x.2.regs x.2.hasCoe) (w : Bool) (a : Nat) (ha : InWin start (winOf x.2 w) a) :
    ∃ p, physAt (smRanges x.1 x.2.regs (dirOf w)) (a - (start + (winOf x.2 w).1)) = some p ∧
      p ∈ fmmuMap x.2.regs.fmmu x.1.fmmuCount w a := by
  have hm := fmmu_maps_exactly_partial hf h x hx hav hct
  have hb := window_is_backed hf h x hx w
  obtain ⟨p, hp⟩ := physAt_isSome_of_lt (ws := smRanges x.1 x.2.regs (dirOf w))
    (k := a - (start + (winOf x.2 w).1)) (by rw [hb]; unfold InWin at ha; omega)
  exact ⟨p, hp, (hm w a p).2 ⟨ha, hp⟩⟩

/-- … and nothing else: a logical byte of one device's window is translated by NO other device of the group
    (same service direction), in either order of the two devices. -/
theorem window_reaches_only_owner {start maxPdi : Nat} {devs : List (Device × DevState)} {g : GroupLayout}
    (hf : Fresh devs) (h : groupConfigureFmmus .checked start maxPdi devs = .ok g)
    (hav : ∀ x ∈ g.devs, FmmuAvail x.1 x.2.hasCoe) (hct : ∀ x ∈ g.devs, SharedContig x.1 x.2.regs x.2.hasCoe) :
    g.devs.Pairwise (fun x y => ∀ (w : Bool) (a : Nat),
      (InWin start (winOf x.2 w) a → fmmuMap y.2.regs.fmmu y.1.fmmuCount w a = []) ∧
      (InWin start (winOf y.2 w) a → fmmuMap x.2.regs.fmmu x.1.fmmuCount w a = [])) := by
  have hl := (configure_ok_iff.1 h).1
  refine (windows_disjoint hf h).imp_of_mem ?_
  intro x y hx hy hd w a
  have mx := fmmu_maps_exactly_partial hf hl x hx (hav x hx) (hct x hx)
  have my := fmmu_maps_exactly_partial hf hl y hy (hav y hy) (hct y hy)
  constructor
  · intro ha
    apply List.eq_nil_iff_forall_not_mem.2
    intro p hp
    have := ((my w a p).1 hp).1
    unfold InWin at ha this
    cases w <;> simp only [winOf, Bool.false_eq_true, if_false, if_true] at ha this <;> omega
  · intro ha
    apply List.eq_nil_iff_forall_not_mem.2
    intro p hp
    have := ((mx w a p).1 hp).1
    unfold InWin at ha this
    cases w <;> simp only [winOf, Bool.false_eq_true, if_false, if_true] at ha this <;> omega

/-- Outputs: a byte written to one SubDevice's outputs arrives in that device's output memory (first part)
    and in no other device of the group (second part). -/
theorem outputs_reach_only_owner {start maxPdi : Nat} {devs : List (Device × DevState)} {g : GroupLayout}
    (hf : Fresh devs) (h : groupConfigureFmmus .checked start maxPdi devs = .ok g)
    (hav : ∀ x ∈ g.devs, FmmuAvail x.1 x.2.hasCoe) (hct : ∀ x ∈ g.devs, SharedContig x.1 x.2.regs x.2.hasCoe) :
    (∀ x ∈ g.devs, ∀ a, InWin start x.2.output a →
      ∃ p, physAt (smRanges x.1 x.2.regs .output) (a - (start + x.2.output.1)) = some p ∧
        p ∈ fmmuMap x.2.regs.fmmu x.1.fmmuCount true a) ∧
    g.devs.Pairwise (fun x y => ∀ a,
      (InWin start x.2.output a → fmmuMap y.2.regs.fmmu y.1.fmmuCount true a = []) ∧
      (InWin start y.2.output a → fmmuMap x.2.regs.fmmu x.1.fmmuCount true a = [])) := by
  refine ⟨?_, (window_reaches_only_owner hf h hav hct).imp ?_⟩
  · intro x hx a ha
    exact window_reaches_owner hf (configure_ok_iff.1 h).1 hx (hav x hx) (hct x hx) true a ha
  · intro x y hxy a
    exact hxy true a

/-- Inputs: a device's input memory appears in its input window (first part) and a byte of its window comes
    from no other device of the group (second part). -/
theorem inputs_come_only_from_owner {start maxPdi : Nat} {devs : List (Device × DevState)} {g : GroupLayout}
    (hf : Fresh devs) (h : groupConfigureFmmus .checked start maxPdi devs = .ok g)
    (hav : ∀ x ∈ g.devs, FmmuAvail x.1 x.2.hasCoe) (hct : ∀ x ∈ g.devs, SharedContig x.1 x.2.regs x.2.hasCoe) :
    (∀ x ∈ g.devs, ∀ a, InWin start x.2.input a →
      ∃ p, physAt (smRanges x.1 x.2.regs .input) (a - (start + x.2.input.1)) = some p ∧
        p ∈ fmmuMap x.2.regs.fmmu x.1.fmmuCount false a) ∧
    g.devs.Pairwise (fun x y => ∀ a,
      (InWin start x.2.input a → fmmuMap y.2.regs.fmmu y.1.fmmuCount false a = []) ∧
      (InWin start y.2.input a → fmmuMap x.2.regs.fmmu x.1.fmmuCount false a = [])) := by
  refine ⟨?_, (window_reaches_only_owner hf h hav hct).imp ?_⟩
  · intro x hx a ha
    exact window_reaches_owner hf (configure_ok_iff.1 h).1 hx (hav x hx) (hct x hx) false a ha
  · intro x y hxy a
    exact hxy false a

/-- Whatever a device of a group translates lies inside that group's logical range `start .. start + pdi_len`. -/
theorem translations_inside_group {start : Nat} {devs : List (Device × DevState)} {g : GroupLayout}
    (hf : Fresh devs) (h : groupLayout .checked start devs = .ok g)
    {x : Device × DevState} (hx : x ∈ g.devs) (hav : FmmuAvail x.1 x.2.hasCoe)
    (hct : SharedContig x.1 x.2.regs x.2.hasCoe) (w : Bool) (a p : Nat)
    (hp : p ∈ fmmuMap x.2.regs.fmmu x.1.fmmuCount w a) : start ≤ a ∧ a < start + g.pdiLen := by
  have hin := ((fmmu_maps_exactly_partial hf h x hx hav hct w a p).1 hp).1
  obtain ⟨_, hw⟩ := (windows_inside_image (maxPdi := g.pdiLen) hf (configure_ok_iff.2 ⟨h, Nat.le_refl _⟩)).2
  have := hw x hx
  unfold InWin at hin
  cases w <;> simp only [winOf, Bool.false_eq_true, if_false, if_true] at hin <;> omega

/-! ## Different groups -/

/-- Images of different groups occupy disjoint logical ranges: in `init`'s order every later group starts at
    or after the end of the image of every earlier group that was configured successfully
    (MAX_PDI below 64 KiB, as the property says; `as u16` would truncate a larger one). -/
theorem groups_disjoint {n : Net} {res : List (Nat × Nat × Out GroupLayout)}
    (hmax : ∀ s, n.maxPdi s < 65536) (h : configNet .checked n = .ok res) :
    res.Pairwise (fun u v => ∀ gu, u.2.2 = .ok gu → u.2.1 + gu.pdiLen ≤ v.2.1) := by
  unfold configNet at h
  obtain ⟨gs, hi, h⟩ := bind_eq_ok.1 h
  simp only [Outcome.ok.injEq] at h
  subst h
  unfold initPhase at hi
  split at hi
  · simp at hi
  · obtain ⟨starts, hs, hi⟩ := bind_eq_ok.1 hi
    simp only [Outcome.ok.injEq] at hi
    subst hi
    have hp := (starts_pairwise _ _ _ (groupStarts_rel _ _ _ hs)).1
    rw [List.zip_map_left, List.pairwise_map] at hp
    rw [List.pairwise_map]
    refine hp.imp ?_
    intro u v huv gu hgu
    simp only at hgu huv ⊢
    have hle := (configure_ok_iff.1 hgu).2
    have := hmax u.1
    simp only [Prod.map_fst, Prod.map_snd, id] at huv
    omega

/-- No logical byte is translated by devices of two different groups whose ranges are disjoint (as
    `groups_disjoint` gives for groups that both succeeded): traffic of one group cannot touch the other. -/
theorem groups_isolated {s1 s2 : Nat} {devs1 devs2 : List (Device × DevState)} {g1 g2 : GroupLayout}
    (hf1 : Fresh devs1) (hf2 : Fresh devs2)
    (h1 : groupLayout .checked s1 devs1 = .ok g1) (h2 : groupLayout .checked s2 devs2 = .ok g2)
    (hsep : s1 + g1.pdiLen ≤ s2)
    {x y : Device × DevState} (hx : x ∈ g1.devs) (hy : y ∈ g2.devs)
    (hax : FmmuAvail x.1 x.2.hasCoe) (hcx : SharedContig x.1 x.2.regs x.2.hasCoe)
    (hay : FmmuAvail y.1 y.2.hasCoe) (hcy : SharedContig y.1 y.2.regs y.2.hasCoe) (w w' : Bool) (a : Nat) :
    fmmuMap x.2.regs.fmmu x.1.fmmuCount w a = [] ∨ fmmuMap y.2.regs.fmmu y.1.fmmuCount w' a = [] := by
  by_cases hlt : a < s2
  · right
    apply List.eq_nil_iff_forall_not_mem.2
    intro p hp
    have := translations_inside_group hf2 h2 hy hay hcy w' a p hp
    omega
  · left
    apply List.eq_nil_iff_forall_not_mem.2
    intro p hp
    have := translations_inside_group hf1 h1 hx hax hcx w a p hp
    omega

/-! ## Sync manager lengths -/

/-- Every process-data sync manager is programmed with exactly the byte length ITS OWN PDOs require:
    ⌈(Σ PDO bits × oversampling) / 8⌉, an exact natural number — no `u16` wrap-around (this is the per-sync-manager
    form of `window_length`; before the repair of c08/pdo-bit-length-u16-overflow it was false in wrapping
    builds: 81 600 bits gave 2 008 bytes). -/
theorem sm_length_exact {start : Nat} {devs : List (Device × DevState)} {g : GroupLayout}
    (hf : Fresh devs) (h : groupLayout .checked start devs = .ok g) :
    ∀ x ∈ g.devs, ∀ y ∈ enumFrom 0 x.1.sms, ∀ dir : Dir, y.2.usageType = dir.smType →
      (x.2.regs.sm y.1).len = (smBitsSpec x.1 x.2.hasCoe dir y.1 + 7) / 8 := by
  obtain ⟨ts, p1, p2, t1, t2, t3, _⟩ := group_spec hf h
  intro x hx
  rw [t2] at hx
  obtain ⟨t, ht, rfl⟩ := List.mem_map.1 hx
  obtain ⟨_, _, _, _, _, _, d7, _, _, _, _, d12, _⟩ := device_spec (trace_fresh hf t1 ht) (t3 t ht).1 (t3 t ht).2
  intro y hy dir hyt
  simp only [d7]
  exact d12 y hy dir hyt

/-- The lengths programmed into sync managers and FMMUs fit their 16-bit registers (`Regs.Rep`): the natural
    numbers of the model ARE the register contents. Holds in both build modes, for every layout that was
    programmed (also one that is then rejected as too long). -/
theorem registers_representable {m : Mode} {start : Nat} {devs : List (Device × DevState)} {g : GroupLayout}
    (hr : ∀ x ∈ devs, x.2.regs.Rep) (h : groupLayout m start devs = .ok g) :
    ∀ x ∈ g.devs, ∀ k, (x.2.regs.sm k).len < 65536 ∧ (x.2.regs.fmmu k).length < 65536 :=
  fun x hx k => groupLayout_rep hr h x hx k

/-- … and the state `init` leaves the devices in satisfies the hypothesis of `registers_representable`. -/
theorem members_representable {n : Net} (hty : ∀ x ∈ n.devices, x.1.TypesOk) (slot : Nat) :
    ∀ x ∈ n.members slot, x.2.regs.Rep := by
  intro x hx
  unfold Net.members at hx
  obtain ⟨y, hy, rfl⟩ := List.mem_map.1 hx
  exact initDev_rep (hty y (List.mem_filter.1 hy).1)

/-! ## Totality: every PDO configuration ends in a layout or an error, the same in both build modes -/

/-- FULL STATEMENT (replaces `bit_length_overflow_counterexample`). For EVERY group of devices whose
    descriptions fit the Rust types they are read into (`Device.TypesOk`: u16 PDO bit lengths and oversampling
    factors, u8 mapping lengths and counts, at most 64 PDOs per direction — nothing else: any number of sync
    managers, any sums) and whose logical range stays inside the `u32` address space (a device takes at most
    2 × 8 × 65 535 = 1 048 560 bytes, so this admits 4 000 devices per group), configuring the group NEVER PANICS
    and gives THE SAME OUTCOME — the same layout and registers, or the same error — in the overflow-checking
    and in the wrapping build. -/
theorem configuration_total {start maxPdi : Nat} {devs : List (Device × DevState)}
    (hty : ∀ x ∈ devs, x.1.TypesOk) (hsz : start + 1048560 * devs.length < 4294967296) :
    (∀ m w, groupConfigureFmmus m start maxPdi devs ≠ .panic w) ∧
    (∀ m, groupConfigureFmmus m start maxPdi devs = groupConfigureFmmus .checked start maxPdi devs) ∧
    (∀ m w, groupLayout m start devs ≠ .panic w) ∧
    (∀ m, groupLayout m start devs = groupLayout .checked start devs) := by
  obtain ⟨c1, c2⟩ := groupConfigureFmmus_safe maxPdi hty hsz
  obtain ⟨l1, l2⟩ := groupLayout_safe hty hsz
  have c2' : ∀ m, groupConfigureFmmus m start maxPdi devs = groupConfigureFmmus .checked start maxPdi devs := c2
  have l2' : ∀ m, groupLayout m start devs = groupLayout .checked start devs := l2
  exact ⟨fun m w => by rw [c2' m]; exact c1 w, c2', fun m w => by rw [l2' m]; exact l1 w, l2'⟩

/-- FULL STATEMENT of the length clause: in either build mode, configuring a group EITHER returns an error
    OR yields a layout inside the declared capacity in which every device's input and output window has exactly
    the byte length its PDO configuration (CoE or EEPROM, times oversampling) requires and every process-data
    sync manager exactly ⌈its bits / 8⌉ bytes, a length its 16-bit register can hold. Never a panic, never a
    silently shortened window. -/
theorem exact_windows_or_error {start maxPdi : Nat} {devs : List (Device × DevState)} (hf : Fresh devs)
    (hr : ∀ x ∈ devs, x.2.regs.Rep)
    (hty : ∀ x ∈ devs, x.1.TypesOk) (hsz : start + 1048560 * devs.length < 4294967296) (m : Mode) :
    (∃ e, groupConfigureFmmus m start maxPdi devs = .err e) ∨
    ∃ g, groupConfigureFmmus m start maxPdi devs = .ok g ∧ g.pdiLen ≤ maxPdi ∧
      ∀ x ∈ g.devs,
        x.2.input.2 - x.2.input.1 = windowLenSpec x.1 x.2.hasCoe .input ∧
        x.2.output.2 - x.2.output.1 = windowLenSpec x.1 x.2.hasCoe .output ∧
        ∀ y ∈ enumFrom 0 x.1.sms, ∀ dir : Dir, y.2.usageType = dir.smType →
          (x.2.regs.sm y.1).len = (smBitsSpec x.1 x.2.hasCoe dir y.1 + 7) / 8 ∧
          (smBitsSpec x.1 x.2.hasCoe dir y.1 + 7) / 8 < 65536 := by
  obtain ⟨np, ag, _, _⟩ := configuration_total (maxPdi := maxPdi) hty hsz
  rw [ag m]
  cases hc : groupConfigureFmmus .checked start maxPdi devs with
  | err e => exact Or.inl ⟨e, rfl⟩
  | panic w => exact absurd hc (np .checked w)
  | ok g =>
    right
    obtain ⟨hl, hmax⟩ := configure_ok_iff.1 hc
    refine ⟨g, rfl, hmax, ?_⟩
    intro x hx
    obtain ⟨w1, w2⟩ := window_length hf hc x hx
    refine ⟨w1, w2, ?_⟩
    intro y hy dir hyt
    have e := sm_length_exact hf hl x hx y hy dir hyt
    exact ⟨e, by rw [← e]; exact (registers_representable hr hl x hx y.1).1⟩

/-- A configuration that CANNOT be programmed — some process-data sync manager would need more than 65 535
    bytes, more than its length register holds — always ends in an error (`Err.intConv`,
    `Error::IntegerTypeConversion`, or an earlier error of the same group), in both build modes. Before the
    repair such a configuration panicked or was programmed with the length modulo 2¹⁶. -/
theorem unrepresentable_length_is_error {start maxPdi : Nat} {devs : List (Device × DevState)} (hf : Fresh devs)
    (hr : ∀ x ∈ devs, x.2.regs.Rep)
    (hty : ∀ x ∈ devs, x.1.TypesOk) (hsz : start + 1048560 * devs.length < 4294967296)
    {x : Device × DevState} (hx : x ∈ devs) {y : Nat × SmDesc} (hy : y ∈ enumFrom 0 x.1.sms) {dir : Dir}
    (hyt : y.2.usageType = dir.smType) (hbig : 65536 ≤ (smBitsSpec x.1 x.2.hasCoe dir y.1 + 7) / 8) (m : Mode) :
    ∃ e, groupConfigureFmmus m start maxPdi devs = .err e := by
  rcases exact_windows_or_error (maxPdi := maxPdi) hf hr hty hsz m with he | ⟨g, hg, _, hw⟩
  · exact he
  · exfalso
    obtain ⟨_, ag, _, _⟩ := configuration_total (maxPdi := maxPdi) hty hsz
    rw [ag m] at hg
    obtain ⟨hl, _⟩ := configure_ok_iff.1 hg
    obtain ⟨ts, p1, p2, t1, t2, t3, _⟩ := group_spec hf hl
    rw [← t1] at hx
    obtain ⟨t, ht, rfl⟩ := List.mem_map.1 hx
    have hmem : (t.d, t.st2) ∈ g.devs := by rw [t2]; exact List.mem_map_of_mem (f := fun t => (t.d, t.st2)) ht
    have hcoe : t.st2.hasCoe = t.st0.hasCoe :=
      (trace_summary (trace_fresh hf t1 ht) (t3 t ht)).2.2.2.2.2.2.1
    have h2 : (smBitsSpec t.d t.st0.hasCoe dir y.1 + 7) / 8 < 65536 := by
      simpa [hcoe] using ((hw _ hmem).2.2 y hy dir hyt).2
    exact Nat.lt_irrefl _ (Nat.lt_of_lt_of_le h2 hbig)


/-- FULL STATEMENT for a whole network (`init`'s start addresses, then `into_safe_op` on every group): no
    panic anywhere, the same result in both build modes — per group the same layout or the same error. The
    size hypothesis admits 3 855 devices; the property's networks have at most 16 (`network_total_16`). -/
theorem network_total {n : Net} (hty : ∀ x ∈ n.devices, x.1.TypesOk)
    (hsz : 65535 * n.devices.length + 1048560 * n.devices.length < 4294967296) :
    (∀ m w, configNet m n ≠ .panic w) ∧ (∀ m, configNet m n = configNet .checked n) ∧
    ∀ m res, configNet m n = .ok res → ∀ u ∈ res, ∀ w, u.2.2 ≠ .panic w := by
  obtain ⟨⟨s1, s2⟩, s3⟩ := configNet_safe hty hsz
  have s2' : ∀ m, configNet m n = configNet .checked n := s2
  refine ⟨fun m w => by rw [s2' m]; exact s1 w, s2', ?_⟩
  intro m res h
  rw [s2' m] at h
  exact s3 res h

/-- The networks of the property (1..16 devices, any split into groups, any MAX_PDI). -/
theorem network_total_16 {n : Net} (hty : ∀ x ∈ n.devices, x.1.TypesOk) (h16 : n.devices.length ≤ 16) :
    (∀ m w, configNet m n ≠ .panic w) ∧ (∀ m, configNet m n = configNet .checked n) ∧
    ∀ m res, configNet m n = .ok res → ∀ u ∈ res, ∀ w, u.2.2 ≠ .panic w := by
  refine network_total hty ?_
  have a := Nat.mul_le_mul_left 65535 h16
  have b := Nat.mul_le_mul_left 1048560 h16
  have ka : (65535 : Nat) * 16 = 1048560 := by decide
  have kb : (1048560 : Nat) * 16 = 16776960 := by decide
  rw [ka] at a
  rw [kb] at b
  generalize 65535 * n.devices.length = X at a ⊢
  generalize 1048560 * n.devices.length = Y at b ⊢
  omega

/-! ## Overflow-checking build and wrapping build -/

/-- Whenever the overflow-checking (debug) build configures a group without panicking, the wrapping (release)
    build computes exactly the same result — error or success, same windows, same registers. Needs no
    hypothesis on the descriptions at all; `configuration_total` is the two-directional statement (and shows
    that the checking build does not panic) for every description the Rust types allow. -/
theorem release_agrees_with_debug (m : Mode) {start maxPdi : Nat} {devs : List (Device × DevState)} :
    (∀ g, groupConfigureFmmus .checked start maxPdi devs = .ok g → groupConfigureFmmus m start maxPdi devs = .ok g) ∧
    (∀ g, groupLayout .checked start devs = .ok g → maxPdi < g.pdiLen →
      groupConfigureFmmus m start maxPdi devs = .err (.pdiTooLong maxPdi g.pdiLen)) ∧
    (∀ mps starts, groupStarts .checked 0 mps = .ok starts → groupStarts m 0 mps = .ok starts) := by
  refine ⟨?_, ?_, fun mps starts hs => groupStarts_mode m mps 0 starts hs⟩
  · intro g h
    obtain ⟨hl, hm⟩ := configure_ok_iff.1 h
    exact configure_ok_iff.2 ⟨groupLayout_mode m hl, hm⟩
  · intro g hl hlt
    unfold groupConfigureFmmus
    rw [groupLayout_mode m hl]
    simp [Config.bind, checkLen, hlt]

/-! ## Where the code as it stands breaks the property: concrete witnesses (all evaluated by the kernel) -/

namespace Witness

def smD (start control usage : Nat) : SmDesc := { start := start, control := control, enable := 1, usage := usage }

/-- A CoE device: mailbox on SM0/SM1, two output sync managers (SM2 at 0x1100: 2 bytes, SM3 at `out2`: 3 bytes),
    two input sync managers (SM4 at 0x1400: 3 bytes, SM5 at `in2`: 4 bytes); FMMU usage Outputs, Inputs, MbxState. -/
def coeDev (out2 in2 : Nat) : Device :=
  { mailbox := { recvSize := 64, sendSize := 64, protocols := 4 }
    sms := [smD 0x1000 0x26 1, smD 0x1080 0x22 2, smD 0x1100 0x64 3, smD out2 0x64 3, smD 0x1400 0x20 4, smD in2 0x20 4]
    fmmuUsage := [1, 2, 3], fmmuEx := [], txPdos := [], rxPdos := []
    coe := fun i => if i = 2 then some [⟨0x1600, [8, 8]⟩] else if i = 3 then some [⟨0x1601, [16, 8]⟩]
      else if i = 4 then some [⟨0x1a00, [16, 8]⟩] else if i = 5 then some [⟨0x1a01, [32]⟩] else none
    oversampling := [], fmmuCount := 8 }

/-- A digital output terminal without mailbox: 4 output bits on SM0 at 0x0f00. -/
def plainOut : Device :=
  { mailbox := {}, sms := [smD 0x0f00 0x44 3], fmmuUsage := [1], fmmuEx := [], txPdos := [],
    rxPdos := [⟨0x1600, 0, 4⟩], coe := fun _ => none, oversampling := [], fmmuCount := 8 }

/-- A digital input terminal without mailbox: 17 input bits on SM0 at 0x1000. -/
def plainIn : Device :=
  { mailbox := {}, sms := [smD 0x1000 0x00 4], fmmuUsage := [2], fmmuEx := [], txPdos := [⟨0x1a00, 0, 17⟩],
    rxPdos := [], coe := fun _ => none, oversampling := [], fmmuCount := 8 }

/-- A device with a mailbox but without CoE (FoE only): outputs on SM2, inputs on SM3 — and a controller with
    three FMMU entities (0, 1, 2), like an ET1200-based terminal. -/
def foeDev : Device :=
  { mailbox := { recvSize := 64, sendSize := 64, protocols := 8 }
    sms := [smD 0x1000 0x26 1, smD 0x1080 0x22 2, smD 0x1100 0x64 3, smD 0x1400 0x20 4]
    fmmuUsage := [1, 2, 3], fmmuEx := [], txPdos := [⟨0x1a00, 3, 16⟩], rxPdos := [⟨0x1600, 2, 16⟩],
    coe := fun _ => none, oversampling := [], fmmuCount := 3 }

/-- An input device inside the property's quantifier: 5 TxPDOs of 255 entries × 64 bit each on one sync manager. -/
def bigIn : Device :=
  { mailbox := {}, sms := [smD 0x1000 0x00 4], fmmuUsage := [2], fmmuEx := [],
    txPdos := [⟨0x1a00, 0, 16320⟩, ⟨0x1a01, 0, 16320⟩, ⟨0x1a02, 0, 16320⟩, ⟨0x1a03, 0, 16320⟩, ⟨0x1a04, 0, 16320⟩],
    rxPdos := [], coe := fun _ => none, oversampling := [], fmmuCount := 8 }

/-- 2 TxPDO entries of 64 bit, oversampling factor 512: 65 536 bits. -/
def osIn : Device :=
  { mailbox := {}, sms := [smD 0x1000 0x00 4], fmmuUsage := [2], fmmuEx := [], txPdos := [⟨0x1a00, 0, 128⟩],
    rxPdos := [], coe := fun _ => none, oversampling := [(0x1a00, 512)], fmmuCount := 8 }

/-- `n` TxPDOs of 255 entries × 255 bit (the largest PDO an EEPROM can describe) on one sync manager. -/
def hugeIn (n : Nat) : Device :=
  { mailbox := {}, sms := [smD 0x1000 0x00 4], fmmuUsage := [2], fmmuEx := [],
    txPdos := (List.range n).map fun j => ⟨0x1a00 + j, 0, 65025⟩,
    rxPdos := [], coe := fun _ => none, oversampling := [], fmmuCount := 8 }

/-- A CoE device with two output sync managers of 40 000 bytes each (one 250-bit mapping, oversampling 1280). -/
def coeBig : Device :=
  { mailbox := { recvSize := 64, sendSize := 64, protocols := 4 }
    sms := [smD 0x1000 0x26 1, smD 0x1080 0x22 2, smD 0x1100 0x64 3, smD 0xad40 0x64 3]
    fmmuUsage := [1, 2, 3], fmmuEx := [], txPdos := [], rxPdos := []
    coe := fun i => if i = 2 then some [⟨0x1600, [250]⟩] else if i = 3 then some [⟨0x1601, [250]⟩] else none
    oversampling := [(0x1600, 1280), (0x1601, 1280)], fmmuCount := 8 }

def fresh1 (d : Device) : List (Device × DevState) := [(d, initDev d)]

/-- Evaluate something on the devices of a programmed layout (empty list if there is none). -/
def onLayout {α : Type} (r : Out GroupLayout) (f : Device × DevState → α) : List α :=
  match r with
  | .ok g => g.devs.map f
  | _ => []

theorem onLayout_singleton {α : Type} {r : Out GroupLayout} {f : Device × DevState → α} {v : α}
    (h : onLayout r f = [v]) : ∃ g x, r = .ok g ∧ g.devs = [x] ∧ f x = v := by
  cases r with
  | ok g =>
    simp only [onLayout] at h
    match hd : g.devs, h with
    | [x], h => exact ⟨g, x, rfl, hd, by simpa using h⟩
  | err e => simp [onLayout] at h
  | panic w => simp [onLayout] at h

def isPanic {α : Type} : Out α → Bool
  | .panic _ => true
  | _ => false

def errOf {α : Type} : Out α → Option Err
  | .err e => some e
  | _ => none

end Witness

open Witness

/-- Kernel evaluation behind `fmmu_maps_exactly_counterexample`: the CoE device with its second output sync
    manager at 0x1200. Outputs window = image bytes 7..12; logical byte 9 is byte 2 of the window, i.e. byte 0 of
    SM3 = physical 0x1200 — but the one shared FMMU delivers it to 0x1102. -/
theorem coe_shared_fmmu_eval :
    onLayout (groupLayout .checked 0 (fresh1 (coeDev 0x1200 0x1500))) (fun x =>
      (fmmuMap x.2.regs.fmmu x.1.fmmuCount true 9, physAt (smRanges x.1 x.2.regs .output) (9 - (0 + x.2.output.1)),
       x.2.output, x.2.hasCoe, x.1.fmmuUsage.length, x.1.fmmuCount))
      = [([0x1102], some 0x1200, (7, 12), true, 3, 8)] := by decide

/-- COUNTEREXAMPLE to the full statement of `fmmu_maps_exactly_partial` (hypothesis `SharedContig` dropped):
    CoE path, two sync managers of one direction that are not physically contiguous share ONE FMMU (the second
    only adds to `length_bytes`), so the mapping is wrong although every FMMU the MainDevice picked exists. -/
theorem fmmu_maps_exactly_counterexample :
    ∃ (d : Device) (g : GroupLayout), Fresh (fresh1 d) ∧ groupLayout .checked 0 (fresh1 d) = .ok g ∧
      ∃ x ∈ g.devs, FmmuAvail x.1 x.2.hasCoe ∧ ¬ MapsExactly 0 x := by
  obtain ⟨g, x, hg, hd, hv⟩ := onLayout_singleton coe_shared_fmmu_eval
  simp only [Prod.mk.injEq] at hv
  obtain ⟨v1, v2, v3, v4, v5, v6⟩ := hv
  refine ⟨coeDev 0x1200 0x1500, g, ?_, hg, x, by simp [hd], ?_, ?_⟩
  · intro y hy k
    simp only [fresh1, List.mem_singleton] at hy
    subst hy
    exact initDev_fresh _ k
  · rw [v4]; exact fmmuAvail_coe (by rw [v5, v6]; decide)
  · intro hm
    have := ((hm true 9 0x1102).1 (by rw [v1]; simp)).2
    simp only [winOf, dirOf, if_true] at this
    rw [v2] at this
    simp at this

/-- Kernel evaluation behind `fmmu_avail_counterexample`: the FoE device. Inputs window = image bytes 0..2 on SM3
    at 0x1400, programmed into FMMU 3 — which a controller with three FMMU entities does not have. -/
theorem eeprom_fmmu_index_eval :
    onLayout (groupLayout .checked 0 (fresh1 foeDev)) (fun x =>
      (fmmuMap x.2.regs.fmmu x.1.fmmuCount false 0, physAt (smRanges x.1 x.2.regs .input) (0 - (0 + x.2.input.1)),
       x.2.input, x.2.hasCoe, (x.2.regs.fmmu 3).enable))
      = [([], some 0x1400, (0, 2), false, true)] := by decide

/-- COUNTEREXAMPLE to the full statement of `fmmu_maps_exactly_partial` (hypothesis `FmmuAvail` dropped):
    EEPROM path. The FMMU number used for a sync manager is the sync manager's own number (the FMMU_EX lookup
    returns `fmmu.sync_manager`, the FMMU usage list is never consulted), so inputs on SM3 need FMMU 3; a
    device with FMMUs 0..2 never maps them. -/
theorem fmmu_avail_counterexample :
    ∃ (d : Device) (g : GroupLayout), Fresh (fresh1 d) ∧ groupLayout .checked 0 (fresh1 d) = .ok g ∧
      ∃ x ∈ g.devs, SharedContig x.1 x.2.regs x.2.hasCoe ∧ ¬ MapsExactly 0 x := by
  obtain ⟨g, x, hg, hd, hv⟩ := onLayout_singleton eeprom_fmmu_index_eval
  simp only [Prod.mk.injEq] at hv
  obtain ⟨v1, v2, v3, v4, _⟩ := hv
  refine ⟨foeDev, g, ?_, hg, x, by simp [hd], ?_, ?_⟩
  · intro y hy k
    simp only [fresh1, List.mem_singleton] at hy
    subst hy
    exact initDev_fresh _ k
  · intro hc; rw [v4] at hc; simp at hc
  · intro hm
    have := (hm false 0 0x1400).2 ⟨by simp [InWin, winOf, v3], by
      simp only [winOf, dirOf, Bool.false_eq_true, if_false]; exact v2⟩
    rw [v1] at this
    simp at this

/-- COUNTEREXAMPLE to `groups_isolated` / `outputs_reach_only_owner` across groups when one group FAILED.
    Ring: `plainOut` (group 1), `plainOut`, `plainOut` (group 0); MAX_PDI 1 for group 0, 40 for group 1.
    `init` puts group 0 at logical 0 and group 1 at logical 1. Group 0 needs 2 bytes: `into_safe_op` returns
    `PdiTooLong {1, 2}` — but only after both devices were programmed, and nothing is undone: its second
    device keeps an enabled write FMMU at logical byte 1. Group 1 succeeds with its output window at logical
    byte 1: every cycle of group 1 also writes into the failed group's device. -/
theorem failed_group_keeps_fmmus_counterexample :
    -- what `init` + `into_safe_op` report, per group: (slot, start, error, output windows)
    ((match configNet .checked { devices := [(plainOut, 1), (plainOut, 0), (plainOut, 0)],
                                 maxPdi := fun s => if s = 0 then 1 else 40 } with
      | .ok res => res.map fun u => (u.1, u.2.1, errOf u.2.2, onLayout u.2.2 fun x => x.2.output)
      | _ => []) = [(0, 0, some (.pdiTooLong 1 2), []), (1, 1, none, [(0, 1)])]) ∧
    -- what the devices of the failed group are left with: logical byte 1 (write) per device
    onLayout (groupLayout .checked 0 [(plainOut, initDev plainOut), (plainOut, initDev plainOut)])
      (fun x => fmmuMap x.2.regs.fmmu x.1.fmmuCount true 1) = [[], [0x0f00]] ∧
    -- the running group's device translates the same logical byte
    onLayout (groupConfigureFmmus .checked 1 40 (fresh1 plainOut))
      (fun x => fmmuMap x.2.regs.fmmu x.1.fmmuCount true 1) = [[0x0f00]] := by
  refine ⟨by decide, by decide, by decide⟩

/-- FIXED (was `bit_length_overflow_counterexample`: 5 PDOs of 255 × 64-bit entries on one sync manager =
    81 600 bits = 10 200 bytes, MAX_PDI 65 535; the overflow-checking build panicked in `configure_pdos_eeprom`
    (`.sum()` of u16) and the wrapping build silently configured 2 008 bytes). Both builds now configure the
    10 200 bytes the PDO configuration requires; with a capacity of 4 000 bytes both return `PdiTooLong`
    with the true length. Likewise 2 × 64 bit × oversampling 512 = 65 536 bits = 8 192 bytes. -/
theorem bit_length_overflow_fixed :
    (∀ m : Mode, onLayout (groupConfigureFmmus m 0 65535 (fresh1 bigIn))
      (fun x => (x.2.input, windowLenSpec x.1 x.2.hasCoe .input, (x.2.regs.sm 0).len, (x.2.regs.fmmu 0).length))
        = [((0, 10200), 10200, 10200, 10200)]) ∧
    (∀ m : Mode, errOf (groupConfigureFmmus m 0 4000 (fresh1 bigIn)) = some (.pdiTooLong 4000 10200)) ∧
    (∀ m : Mode, onLayout (groupConfigureFmmus m 0 65535 (fresh1 osIn))
      (fun x => (x.2.input, windowLenSpec x.1 x.2.hasCoe .input)) = [((0, 8192), 8192)]) := by
  refine ⟨fun m => by cases m <;> decide, fun m => by cases m <;> decide, fun m => by cases m <;> decide⟩

/-- Where the arithmetic now ends in an error instead: a sync manager of 9 × 65 025 bits = 73 154 bytes does not
    fit the 16-bit length register (`Err.intConv`), in both builds; 8 × 65 025 bits = 65 025 bytes still does. A
    CoE device whose two output sync managers (40 000 bytes each) share one FMMU overflows the FMMU length
    (`checked_add`): `Err.intConv` as well, in both builds. -/
theorem unrepresentable_lengths_are_errors :
    (∀ m : Mode, errOf (groupConfigureFmmus m 0 65535 (fresh1 (hugeIn 9))) = some .intConv) ∧
    (∀ m : Mode, onLayout (groupConfigureFmmus m 0 65535 (fresh1 (hugeIn 8))) (fun x => x.2.input) = [(0, 65025)]) ∧
    (∀ m : Mode, errOf (groupConfigureFmmus m 0 65535 (fresh1 coeBig)) = some .intConv) := by
  refine ⟨fun m => by cases m <;> decide, fun m => by cases m <;> decide, fun m => by cases m <;> decide⟩

/-! ## Non-vacuity: concrete configurations satisfying all hypotheses -/

/-- The same CoE device with physically contiguous sync managers (0x1100+2 = 0x1102, 0x1400+3 = 0x1403) between
    two plain terminals, in a group starting at logical 300 with capacity 40: configured, 13 bytes, inputs first. -/
example :
    (match groupConfigureFmmus .checked 300 40
        [(plainIn, initDev plainIn), (coeDev 0x1102 0x1403, initDev (coeDev 0x1102 0x1403)), (plainOut, initDev plainOut)] with
     | .ok g => some (g.readLen, g.pdiLen, g.devs.map fun x => (x.2.input, x.2.output))
     | _ => none) = some (10, 16, [((0, 3), (10, 10)), ((3, 10), (10, 15)), ((10, 10), (15, 16))]) := by decide

/-- … and its hypotheses `FmmuAvail` and `SharedContig` hold, and the mapping is the expected one:
    logical 300+10+2 (third output byte of the CoE device) goes to 0x1102, which is byte 0 of SM3. -/
example :
    onLayout (groupLayout .checked 300
        [(plainIn, initDev plainIn), (coeDev 0x1102 0x1403, initDev (coeDev 0x1102 0x1403)), (plainOut, initDev plainOut)])
      (fun x => (decide (Contig 0x1100 (smRanges x.1 x.2.regs .output)), decide (Contig 0x1400 (smRanges x.1 x.2.regs .input)),
                 fmmuMap x.2.regs.fmmu x.1.fmmuCount true 312, fmmuMap x.2.regs.fmmu x.1.fmmuCount false 300))
      = [(true, false, [], [0x1000]), (true, true, [0x1102], []), (false, true, [], [])] := by decide

/-- `Device.TypesOk` is satisfiable by exactly the descriptions one expects: the witnesses of the repaired
    overflow — the largest PDOs an EEPROM can describe, an oversampling factor of 512 — satisfy it, so
    `configuration_total` / `exact_windows_or_error` / `unrepresentable_length_is_error` apply to them. -/
example : bigIn.TypesOk ∧ osIn.TypesOk ∧ (hugeIn 9).TypesOk ∧ plainIn.TypesOk :=
  ⟨⟨by decide, by decide, by decide, by decide, by intro i pdos h; simp [bigIn] at h⟩,
   ⟨by decide, by decide, by decide, by decide, by intro i pdos h; simp [osIn] at h⟩,
   ⟨by decide, by decide, by decide, by decide, by intro i pdos h; simp [hugeIn] at h⟩,
   ⟨by decide, by decide, by decide, by decide, by intro i pdos h; simp [plainIn] at h⟩⟩

/-- The hypotheses of `exact_windows_or_error` hold for the state `init` leaves a device in. -/
example : ∀ x ∈ fresh1 bigIn, x.2.regs.Rep := by
  intro x hx
  simp only [fresh1, List.mem_singleton] at hx
  subst hx
  exact initDev_rep ⟨by decide, by decide, by decide, by decide, by intro i pdos h; simp [bigIn] at h⟩

example : FmmuAvail (coeDev 0x1102 0x1403) true := fmmuAvail_coe (by decide)
example : FmmuAvail plainIn false := fmmuAvail_eeprom (by decide)
example : Fresh (fresh1 plainIn) := by
  intro y hy k
  simp only [fresh1, List.mem_singleton] at hy
  subst hy
  exact initDev_fresh _ k

/-- `too_long_is_error` is not vacuous: two input terminals (3 bytes each) in a group declared with 4 bytes. -/
example :
    errOf (groupConfigureFmmus .checked 0 4 [(plainIn, initDev plainIn), (plainIn, initDev plainIn)])
      = some (.pdiTooLong 4 6) := by decide

/-- `groups_disjoint` is not vacuous: three groups, interleaved membership; `init` hands out the addresses in
    reverse order of first appearance (the IndexMap of groups is drained from the back). -/
example :
    (match configNet .checked { devices := [(plainIn, 1), (plainOut, 0), (plainIn, 2), (plainOut, 1), (plainIn, 0)],
                                maxPdi := fun s => if s = 0 then 6 else if s = 1 then 40 else 300 } with
     | .ok res => res.map fun u => (u.1, u.2.1, match u.2.2 with | .ok g => some g.pdiLen | _ => none)
     | _ => []) = [(2, 0, some 3), (0, 300, some 4), (1, 306, some 4)] := by decide

/-! ## T1: facts regenerated from /repo that the model relies on -/

open Ec.Gen.Layouts in
/-- `SyncManagerType` discriminants (Unknown 0 default, MailboxWrite 1, MailboxRead 2, ProcessDataWrite 3,
    ProcessDataRead 4) and `FmmuUsage` (Unused 0 / alt 0xFF, Outputs 1, Inputs 2, SyncManagerStatus 3), as
    `Dir.smType`, `Dir.fmmuType` and `SmDesc.usageType` use them. -/
theorem t1_discriminants :
    E_SyncManagerType.variants.map (·.disc) = [some 0, some 1, some 2, some 3, some 4] ∧
    (variantNames.lookup "SyncManagerType") =
      some ["Unknown", "MailboxWrite", "MailboxRead", "ProcessDataWrite", "ProcessDataRead"] ∧
    E_FmmuUsage.variants.map (·.disc) = [some 0, some 1, some 2, some 3] ∧
    (variantNames.lookup "FmmuUsage") = some ["Unused", "Outputs", "Inputs", "SyncManagerStatus"] ∧
    E_Direction.variants.map (·.disc) = [some 0, some 1] ∧ E_OperationMode.variants.map (·.disc) = [some 0, some 2] ∧
    Dir.input.smType = 4 ∧ Dir.output.smType = 3 ∧ Dir.input.fmmuType = 2 ∧ Dir.output.fmmuType = 1 := by
  decide

open Ec.Gen.Layouts in
/-- Field order of the two register images the MainDevice writes (the driver packs them through these layouts). -/
theorem t1_register_layouts :
    fieldNames.lookup "Fmmu" = some ["logical_start_address", "length_bytes", "logical_start_bit", "logical_end_bit",
      "physical_start_address", "physical_start_bit", "read_enable", "write_enable", "enable"] ∧
    fieldNames.lookup "SyncManagerChannel" = some ["physical_start_address", "length_bytes", "control", "status", "enable"] ∧
    S_Fmmu.bytes = some 16 ∧ S_SyncManagerChannel.bytes = some 8 := by
  decide

open Ec.Gen.Config in
/-- The arithmetic the model does is the arithmetic of the source (regenerated from
    `src/subdevice/configuration.rs`, `src/pdi.rs`, `src/eeprom/types.rs`, `src/subdevice/mod.rs` on every run): the PDO
    bit lengths are accumulated and multiplied in `u64` (`U64`) from `u8` / `u16` operands, both paths convert the
    byte length with `u16::try_from(bits.div_ceil(8))?` (`lenBytes`), no `(x + 7) / 8` on a bit length is left, the
    shared FMMU is extended with `checked_add` (`extendLen`) and the offset advances by the programmed byte length.
    Reverting the repair of c08/pdo-bit-length-u16-overflow breaks this theorem (and the extractor reports the
    missing shapes) before any failing input is searched for. -/
theorem t1_config_arithmetic :
    SM_BIT_LEN_BITS = 64 ∧ PDO_BIT_LEN_BITS = 64 ∧ MAPPING_WIDENED_TO_BITS = 64 ∧
    COE_OVERSAMPLING_WIDENED_TO_BITS = 64 ∧ EEPROM_SUM_BITS = 64 ∧ EEPROM_PRODUCT_BITS = 64 ∧
    U64 = 2 ^ SM_BIT_LEN_BITS ∧
    PDO_BIT_LEN_FIELD_BITS = 16 ∧ OVERSAMPLING_FACTOR_BITS = 16 ∧ SM_LENGTH_REGISTER_BITS = 16 ∧
    U16 = 2 ^ SM_LENGTH_REGISTER_BITS ∧
    byteLenCheckedConversions = 2 ∧ plusSevenRoundings = 0 ∧ fmmuExtendChecked = 1 ∧ fmmuExtendUnchecked = 0 ∧
    offsetAdvancesByProgrammedLength = 1 ∧ offsetAdvancesByBits = 0 ∧ incrementByteAlignedDivCeil = 1 := by
  decide

end Ec.C08
