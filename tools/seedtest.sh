#!/bin/bash
# usage: tools/seedtest.sh <seed-dir-name> <check-id> [<check-id>...]
# Applies /verif/seeded/<name>/patch.diff to /repo, runs the given checks (quick), reverts the patch.
set -u
name=$1; shift
cd /repo
if ! git apply --check /verif/seeded/$name/patch.diff 2>/dev/null; then echo "PATCH DOES NOT APPLY: $name"; exit 2; fi
git apply /verif/seeded/$name/patch.diff
cd /verif
for c in "$@"; do
  ./check $c > /verif/out/seed_${name}_$c.log 2>&1
  echo "$name $c exit=$? :: $(grep -E '^(VIOLATION|OK)' /verif/out/seed_${name}_$c.log | head -3 | tr '\n' ' ')"
  grep '^DETAIL' /verif/out/seed_${name}_$c.log | head -3 | cut -c1-220
done
cd /repo && git apply -R /verif/seeded/$name/patch.diff && echo reverted
