//! Shared parts of the correspondence harness: PRNG, virtual clock, helpers, report writer.
//! One binary per property lives in `src/bin/`.
pub mod baton;
pub mod clock;
pub mod dcnet;
pub mod microrun;
pub mod rng;
pub mod seq;
pub mod seqgen;
pub mod util;
pub mod sim;
pub mod exec;
pub mod wkcnet;

/// Hang watchdog: a case on which the REAL code never returns (a loop without an await, a spin on a state
/// that no longer changes) must end the run with a report instead of blocking the check for ever. Every
/// completed case / recorded feature is progress; if there is none for `VERIF_HANG_S` seconds (default 150
/// quick, 900 thorough) the process writes `<outdir>/<bin>.hang.json` (number of completed cases, the last
/// completed case line, the case announced with `about_to_run` if any) and exits with status 86.
pub mod progress {
    use std::sync::Mutex;
    use std::sync::atomic::{AtomicU64, Ordering};
    pub static TICKS: AtomicU64 = AtomicU64::new(0);
    pub static COMPLETED: AtomicU64 = AtomicU64::new(0);
    pub static LAST: Mutex<String> = Mutex::new(String::new());
    pub static CURRENT: Mutex<String> = Mutex::new(String::new());
    pub fn tick() {
        TICKS.fetch_add(1, Ordering::Relaxed);
    }
    pub fn completed(line: &str) {
        TICKS.fetch_add(1, Ordering::Relaxed);
        COMPLETED.fetch_add(1, Ordering::Relaxed);
        if let Ok(mut l) = LAST.try_lock() {
            l.clear();
            l.push_str(&line[..line.len().min(4000)]);
        }
        if let Ok(mut c) = CURRENT.try_lock() {
            c.clear();
        }
    }
    /// Optional: announce the case that is about to run (so a hang can name it exactly).
    pub fn about_to_run(line: &str) {
        TICKS.fetch_add(1, Ordering::Relaxed);
        if let Ok(mut c) = CURRENT.try_lock() {
            c.clear();
            c.push_str(&line[..line.len().min(4000)]);
        }
    }
    pub fn start_watchdog(outdir: String, tier: &str) {
        let bin = std::env::args().next().map(|a| a.rsplit('/').next().unwrap_or("").to_string()).unwrap_or_default();
        let limit: u64 = std::env::var("VERIF_HANG_S").ok().and_then(|s| s.parse().ok()).unwrap_or(if tier == "thorough" { 900 } else { 150 });
        std::thread::spawn(move || {
            let mut last = TICKS.load(Ordering::Relaxed);
            let mut idle = 0u64;
            loop {
                std::thread::sleep(std::time::Duration::from_secs(5));
                let now = TICKS.load(Ordering::Relaxed);
                if now != last {
                    last = now;
                    idle = 0;
                    continue;
                }
                idle += 5;
                if idle >= limit {
                    let esc = |s: &str| s.replace('\\', "\\\\").replace('"', "\\\"");
                    let lastc = LAST.lock().map(|l| l.clone()).unwrap_or_default();
                    let cur = CURRENT.lock().map(|l| l.clone()).unwrap_or_default();
                    let _ = std::fs::create_dir_all(&outdir);
                    let _ = std::fs::write(
                        format!("{outdir}/{bin}.hang.json"),
                        format!(
                            "{{\"bin\":\"{}\",\"completed\":{},\"idle_s\":{},\"last_completed_case\":\"{}\",\"case\":\"{}\"}}",
                            esc(&bin),
                            COMPLETED.load(Ordering::Relaxed),
                            idle,
                            esc(&lastc),
                            esc(&cur)
                        ),
                    );
                    std::process::exit(86);
                }
            }
        });
    }
}

/// Standard entry point of a property binary: `<bin> <quick|thorough> <seed> <outdir> [--replay FILE]`.
pub struct Args {
    pub tier: String,
    pub seed: u64,
    pub out: String,
    pub replay: Option<String>,
}

pub fn parse_args() -> Args {
    let a: Vec<String> = std::env::args().collect();
    if a.len() < 4 {
        eprintln!("usage: {} <quick|thorough> <seed> <outdir> [--replay FILE]", a[0]);
        std::process::exit(2);
    }
    let replay = a.iter().position(|x| x == "--replay").and_then(|i| a.get(i + 1).cloned());
    // panics inside cases are caught per case; keep the default hook quiet
    std::panic::set_hook(Box::new(|_| {}));
    progress::start_watchdog(a[3].clone(), &a[1]);
    Args { tier: a[1].clone(), seed: a[2].parse().expect("seed"), out: a[3].clone(), replay }
}

/// If `--replay FILE` was given: the case line(s) stored in the replay file (field "case", or
/// "first"."case" for a correspondence replay).
pub fn replay_cases(args: &Args) -> Option<Vec<String>> {
    let p = args.replay.as_ref()?;
    let text = std::fs::read_to_string(p).ok()?;
    let mut out = Vec::new();
    // minimal JSON string extraction of every `"case": "..."` field
    let mut rest = text.as_str();
    while let Some(i) = rest.find("\"case\":") {
        rest = &rest[i + 7..];
        let Some(q) = rest.find('"') else { break };
        let mut s = String::new();
        let mut esc = false;
        let mut end = 0;
        for (k, c) in rest[q + 1..].char_indices() {
            if esc {
                s.push(match c {
                    'n' => '\n',
                    't' => '\t',
                    c => c,
                });
                esc = false;
            } else if c == '\\' {
                esc = true;
            } else if c == '"' {
                end = q + 1 + k;
                break;
            } else {
                s.push(c);
            }
        }
        out.push(s);
        rest = &rest[end..];
    }
    Some(out)
}
pub mod eeprom_devsim;
pub mod eeprom_gen;
pub mod coerig;
