/- C09 helper: no function of the init model produces a panic outcome (they only forward one). -/
import EcModel.Init

namespace Ec.Init

open Ec Ec.Net Ec.Gen.Init

theorem subdeviceNew_no_panic (stations als : List Nat) (infos : List DevInfo) (i : Nat) (s : String) :
    (subdeviceNew stations als infos i).1 ≠ .panic s := by
  unfold subdeviceNew
  simp only
  split
  · simp
  · split <;> simp

theorem newLoop_no_panic (maxSub : Nat) (stations als : List Nat) (infos : List DevInfo) (s : String) :
    ∀ (t i : Nat) (acc : List Record) (log : List Entry2),
      (newLoop maxSub stations als infos t i acc log).1 ≠ .panic s := by
  intro t
  induction t with
  | zero => intro i acc log; simp [newLoop]
  | succ t ih =>
    intro i acc log
    unfold newLoop
    have hn := subdeviceNew_no_panic stations als infos i
    rcases hsn : subdeviceNew stations als infos i with ⟨o, l⟩
    rw [hsn] at hn
    cases o with
    | ok r =>
      simp only
      split
      · simp
      · exact ih _ _ _
    | err e => simp
    | panic s' => exact absurd rfl (hn s')

theorem assignLoop_no_panic (len : Nat) (s : String) :
    ∀ (t i : Nat) (stations : List Nat) (log : List Entry1), (assignLoop len t i stations log).1 ≠ .panic s := by
  intro t
  induction t with
  | zero => intro i st log; simp [assignLoop]
  | succ t ih =>
    intro i st log
    unfold assignLoop
    simp only
    split
    · simp
    · exact ih _ _ _

theorem dcReadLoop_no_panic (stations : List Nat) (s : String) :
    ∀ (rs : List Record) (log : List Entry2), (dcReadLoop stations rs log).1 ≠ .panic s := by
  intro rs
  induction rs with
  | nil => intro log; simp [dcReadLoop]
  | cons r rs ih =>
    intro log
    unfold dcReadLoop
    simp only
    split
    · simp
    · exact ih _

theorem dcPhase_no_panic (stations : List Nat) (infos : List DevInfo) (records : List Record) (iters : Nat)
    (s : String) : (dcPhase stations infos records iters).1 ≠ .panic s := by
  unfold dcPhase
  simp only
  split
  · simp
  · have hn := dcReadLoop_no_panic stations
    split
    · split <;> simp
    · simp
    · rename_i s' l1 heq
      exact absurd (by rw [heq]) (hn s' _ _)

theorem groupLoop_no_panic (maxSub : Nat) (caps : List Nat) (assign : Record → Option Nat) (s : String) :
    ∀ (rs : List Record) (g : Groups), groupLoop maxSub caps assign rs g ≠ .panic s := by
  intro rs
  induction rs with
  | nil => intro g; simp [groupLoop]
  | cons r rs ih =>
    intro g
    unfold groupLoop
    split
    · simp
    · split
      · simp
      · split
        · simp
        · simp only
          split
          · exact ih _
          · split
            · simp
            · exact ih _

theorem configureMailboxes_no_panic (stations als : List Nat) (infos : List DevInfo) (r : Record) (s : String) :
    (configureMailboxes stations als infos r).1 ≠ .panic s := by
  unfold configureMailboxes
  simp only
  split
  · simp
  · split <;> simp

theorem preopMembers_no_panic (stations : List Nat) (infos : List DevInfo) (s : String) :
    ∀ (rs : List Record) (als : List Nat) (log : List Entry2), (preopMembers stations infos rs als log).1 ≠ .panic s := by
  intro rs
  induction rs with
  | nil => intro als log; simp [preopMembers]
  | cons r rs ih =>
    intro als log
    unfold preopMembers
    have hn := configureMailboxes_no_panic stations als infos r
    rcases hc : configureMailboxes stations als infos r with ⟨o, l⟩
    rw [hc] at hn
    cases o with
    | ok a => exact ih _ _
    | err e => simp
    | panic s' => exact absurd rfl (hn s')

theorem preopGroups_no_panic (stations : List Nat) (infos : List DevInfo) (members : List (List Record)) (s : String) :
    ∀ (ks : List Nat) (als : List Nat) (log : List Entry2),
      (preopGroups stations infos members ks als log).1 ≠ .panic s := by
  intro ks
  induction ks with
  | nil => intro als log; simp [preopGroups]
  | cons k ks ih =>
    intro als log
    unfold preopGroups
    have hn := preopMembers_no_panic stations infos
    rcases hc : preopMembers stations infos (members.getD k []) als log with ⟨o, l⟩
    cases o with
    | ok a => exact ih _ _
    | err e => simp
    | panic s' => exact absurd (by rw [hc]) (hn s' _ _ _)

theorem afterAssign_no_panic (maxSub : Nat) (caps : List Nat) (assign : Record → Option Nat) (iters n : Nat)
    (stations als : List Nat) (infos : List DevInfo) (s : String) :
    (afterAssign maxSub caps assign iters n stations als infos).1 ≠ .panic s := by
  unfold afterAssign
  have h1 := newLoop_no_panic maxSub stations als infos
  rcases hnl : newLoop maxSub stations als infos n 0 [] [] with ⟨o, l⟩
  cases o with
  | err e => simp
  | panic s' => exact absurd (by rw [hnl]) (h1 s' n 0 [] [])
  | ok records =>
    simp only
    have h2 := dcPhase_no_panic stations infos records iters
    rcases hdc : dcPhase stations infos records iters with ⟨o2, l2⟩
    rw [hdc] at h2
    cases o2 with
    | err e => simp
    | panic s' => exact absurd rfl (h2 s')
    | ok u =>
      simp only
      have h3 := groupLoop_no_panic maxSub caps assign
      cases hg : groupLoop maxSub caps assign records ⟨caps.map fun _ => [], []⟩ with
      | err e => simp
      | panic s' => exact absurd hg (h3 s' _ _)
      | ok g =>
        simp only
        have h4 := preopGroups_no_panic stations infos g.members
        rcases hp : preopGroups stations infos g.members g.order.reverse als (l ++ l2) with ⟨o3, als', l3⟩
        cases o3 with
        | err e => simp
        | panic s' => exact absurd (by rw [hp]) (h4 s' _ _ _)
        | ok a =>
          simp only
          split
          · simp
          · split <;> simp

/-- `init` never ends in a panic, on any ring, with any capacities and any filter. -/
theorem init_no_panic' (maxSub : Nat) (caps : List Nat) (assign : Record → Option Nat) (iters : Nat)
    (ring : List Dev) (s : String) : (init maxSub caps assign iters ring).result ≠ .panic s := by
  unfold init
  simp only
  split
  · simp
  · have h1 := assignLoop_no_panic ring.length
    split
    · simp
    · rename_i s' st l heq
      exact absurd (by rw [heq]) (h1 s' _ _ _ _)
    · exact afterAssign_no_panic _ _ _ _ _ _ _ _ _

end Ec.Init
