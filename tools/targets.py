#!/usr/bin/env python3
"""Prints the lake targets (property modules and drivers) of every configured property."""
import os, sys
sys.path.insert(0, os.path.dirname(os.path.abspath(__file__)))
from props import PROPS

seen = []
for pid, cfg in PROPS.items():
    for m in cfg["lean_modules"]:
        if m not in seen:
            seen.append(m)
    for k in cfg.get("harness", []):
        d = cfg.get("drivers", {}).get(k, "drv_" + k)
        if d not in seen:
            seen.append(d)
print(" ".join(seen))
