//! Interpreter for sequential PDU-loop histories against the REAL code: the same op lines the Lean
//! driver `drv_seq` executes on the model. Real handles are kept in numbered registers.
use crate::util::{hex, poll_once, unhex};
use core::pin::Pin;
use core::time::Duration;
use ethercrab::error::{Error, PduError};
use ethercrab::verif::{self, CreatedFrame, PduResponseHandle, ReceiveFrameFut, ReceivedFrame, ReceivedPdu, VerifDynStorage};
use ethercrab::{Command, PduLoop, PduRx, PduTx, Reads, SendableFrame, Writes};
use std::collections::BTreeMap;
use std::panic::{AssertUnwindSafe, catch_unwind};

pub enum H {
    Created(CreatedFrame<'static>),
    Fut(Pin<Box<ReceiveFrameFut<'static>>>),
    Sendable(SendableFrame<'static>),
    Received(ReceivedFrame<'static>),
    View(ReceivedPdu<'static>),
}

pub struct World {
    pub storage: &'static VerifDynStorage,
    pub tx: Option<PduTx<'static>>,
    pub rx: Option<PduRx<'static>>,
    pub pdu_loop: &'static PduLoop<'static>,
    pub regs: BTreeMap<u32, H>,
    pub n: usize,
    pub data: usize,
    /// called from INSIDE the send closure with the bytes handed to the driver (before `mark_sent`)
    pub on_send: Option<Box<dyn FnMut(&[u8]) + Send>>,
    /// set by the waker registered with `PduTx::replace_waker` before the last `po` (only in a world that
    /// holds the TX handle): did that poll wake the transmit side?
    pub tx_woken: std::sync::Arc<TxWoken>,
    /// identifies this world (thread) in [`WAKE_LOG`]
    pub wid: usize,
}

/// Every wake-up of a waker handed to `ReceiveFrameFut::poll` by a `po` op: (world id, register, step counter at
/// the time of the wake). Lets a monitor check that accepting a response wakes the task that awaits it.
pub static WAKE_LOG: std::sync::Mutex<Vec<(usize, u32, usize)>> = std::sync::Mutex::new(Vec::new());
/// Step counter of the schedule-controlled runner (0 elsewhere).
pub static STEP_NOW: std::sync::atomic::AtomicUsize = std::sync::atomic::AtomicUsize::new(0);

struct FutWaker {
    wid: usize,
    reg: u32,
}
impl std::task::Wake for FutWaker {
    fn wake(self: std::sync::Arc<Self>) {
        self.wake_by_ref();
    }
    fn wake_by_ref(self: &std::sync::Arc<Self>) {
        if let Ok(mut l) = WAKE_LOG.lock() {
            l.push((self.wid, self.reg, STEP_NOW.load(std::sync::atomic::Ordering::SeqCst)));
        }
    }
}

pub struct TxWoken(pub std::sync::atomic::AtomicBool);
impl std::task::Wake for TxWoken {
    fn wake(self: std::sync::Arc<Self>) {
        self.0.store(true, std::sync::atomic::Ordering::SeqCst);
    }
    fn wake_by_ref(self: &std::sync::Arc<Self>) {
        self.0.store(true, std::sync::atomic::Ordering::SeqCst);
    }
}

pub fn parse_cmd(s: &str) -> Command {
    let p: Vec<&str> = s.split('.').collect();
    let n = |i: usize| p[i].parse::<u64>().unwrap();
    match p[0] {
        "nop" => Command::Nop,
        "aprd" => Command::Read(Reads::Aprd { address: n(1) as u16, register: n(2) as u16 }),
        "fprd" => Command::Read(Reads::Fprd { address: n(1) as u16, register: n(2) as u16 }),
        "brd" => Command::Read(Reads::Brd { address: n(1) as u16, register: n(2) as u16 }),
        "frmw" => Command::Read(Reads::Frmw { address: n(1) as u16, register: n(2) as u16 }),
        "bwr" => Command::Write(Writes::Bwr { address: n(1) as u16, register: n(2) as u16 }),
        "apwr" => Command::Write(Writes::Apwr { address: n(1) as u16, register: n(2) as u16 }),
        "fpwr" => Command::Write(Writes::Fpwr { address: n(1) as u16, register: n(2) as u16 }),
        "aprdpos" => Command::aprd(n(1) as u16, n(2) as u16).into(),
        "apwrpos" => Command::apwr(n(1) as u16, n(2) as u16).into(),
        "lrd" => Command::Read(Reads::Lrd { address: n(1) as u32 }),
        "lwr" => Command::Write(Writes::Lwr { address: n(1) as u32 }),
        "lrw" => Command::Write(Writes::Lrw { address: n(1) as u32 }),
        other => panic!("bad cmd {other}"),
    }
}

pub fn err_token(e: &Error) -> String {
    use ethercrab::error::TimeoutError;
    match e {
        Error::Pdu(PduError::Ethernet) => "err.ethernet".into(),
        Error::Pdu(PduError::Decode) => "err.decode".into(),
        Error::Pdu(PduError::TooLong) => "err.toolong".into(),
        Error::Pdu(PduError::SwapState) => "err.swapstate".into(),
        Error::Pdu(PduError::InvalidIndex(k)) => format!("err.invalidindex.{k}"),
        Error::Pdu(PduError::InvalidFrameState) => "err.invalidframestate".into(),
        Error::Pdu(_) => "err.pdu.other".into(),
        Error::Wire(ethercrab_wire::WireError::ReadBufferTooShort) => "err.wire.short".into(),
        Error::Wire(ethercrab_wire::WireError::InvalidValue) => "err.wire.invalid".into(),
        Error::Wire(_) => "err.wire.other".into(),
        Error::ReceiveFrame => "err.receiveframe".into(),
        Error::Internal => "err.internal".into(),
        Error::Timeout(TimeoutError::Pdu) => "err.timeout".into(),
        Error::Timeout(_) => "err.timeout.other".into(),
        Error::WorkingCounter { expected, received } => format!("err.wkc.{expected}.{received}"),
        _ => "err.other".into(),
    }
}

fn show_handle(h: &PduResponseHandle) -> String {
    format!("{}.{}.{}.{}", h.index_in_frame, h.pdu_idx, h.command_code, h.alloc_size)
}

impl World {
    pub fn new(n: usize, data: usize, fi: u8, pi: u8) -> World {
        let storage = crate::util::dyn_storage(n, data);
        storage.set_counters(fi, pi);
        let (tx, rx, pdu_loop) = storage.split();
        let pdu_loop: &'static PduLoop<'static> = Box::leak(Box::new(pdu_loop));
        World { storage, tx: Some(tx), rx: Some(rx), pdu_loop, regs: BTreeMap::new(), n, data, on_send: None, tx_woken: std::sync::Arc::new(TxWoken(std::sync::atomic::AtomicBool::new(false))), wid: 0 }
    }

    /// Another view of the same storage for a further thread (no TX/RX handle; move those over with
    /// `take()` as needed).
    pub fn sibling(&self) -> World {
        World { storage: self.storage, tx: None, rx: None, pdu_loop: self.pdu_loop, regs: BTreeMap::new(), n: self.n, data: self.data, on_send: None, tx_woken: std::sync::Arc::new(TxWoken(std::sync::atomic::AtomicBool::new(false))), wid: 0 }
    }

    pub fn snapshot(&self) -> String {
        let (fi, pi) = verif::counters(self.pdu_loop);
        let mut parts = vec![format!("{fi}.{pi}")];
        let mut buf = vec![0u8; self.data];
        for i in 0..self.n {
            let (st, first, used) = verif::slot_snapshot(self.pdu_loop, i);
            verif::slot_bytes(self.pdu_loop, i, &mut buf);
            parts.push(format!("{st}:{first}:{used}:{}", if buf.is_empty() { String::new() } else { hex(&buf) }));
        }
        parts.join("/")
    }

    /// (state, first marker, used) of one slot.
    pub fn slot(&self, i: usize) -> (u8, u16, usize) {
        verif::slot_snapshot(self.pdu_loop, i)
    }

    pub fn step(&mut self, op: &str) -> String {
        let r = catch_unwind(AssertUnwindSafe(|| self.step_inner(op)));
        match r {
            Ok(s) => s,
            Err(_) => "panic".into(),
        }
    }

    fn step_tn(&mut self, r: u32) -> String {
        match self.tx.as_mut().expect("tx role").next_sendable_frame() {
            Some(sf) => {
                let s = verif::sendable_slot(&sf);
                self.regs.insert(r, H::Sendable(sf));
                format!("some.{s}")
            }
            None => "none".into(),
        }
    }

    fn step_inner(&mut self, op: &str) -> String {
        let f: Vec<&str> = op.split(',').collect();
        let reg = |i: usize| f[i].parse::<u32>().unwrap();
        // an operation on a register holding another kind of handle is a no-op (`bad-op`): the handle
        // must stay where it is
        let want: Option<u8> = match f[0] {
            "pu" | "re" | "mk" | "dc" => Some(0),
            "po" | "df" => Some(1),
            "ts" => Some(2),
            "fp" | "it" | "dr" => Some(3),
            "vr" | "vt" | "dv" => Some(4),
            _ => None,
        };
        if let Some(k) = want {
            let have = self.regs.get(&reg(1)).map(|h| match h {
                H::Created(_) => 0u8,
                H::Fut(_) => 1,
                H::Sendable(_) => 2,
                H::Received(_) => 3,
                H::View(_) => 4,
            });
            if have != Some(k) {
                return "bad-op".into();
            }
        }
        match f[0] {
            "al" => match verif::alloc_frame(self.pdu_loop) {
                Ok(fr) => {
                    let s = fr.storage_slot_index();
                    self.regs.insert(reg(1), H::Created(fr));
                    format!("ok.{s}")
                }
                Err(e) => err_token(&e),
            },
            "pu" => {
                let Some(H::Created(fr)) = self.regs.get_mut(&reg(1)) else { return "bad-op".into() };
                let data = unhex(f[3]);
                let lo = if f[4] == "-" { None } else { Some(f[4].parse::<u16>().unwrap()) };
                match fr.push_pdu(parse_cmd(f[2]), &data[..], lo) {
                    Ok(h) => format!("ok.{}", show_handle(&h)),
                    Err(PduError::TooLong) => "toolong".into(),
                    Err(e) => err_token(&Error::Pdu(e)),
                }
            }
            "re" => {
                let Some(H::Created(fr)) = self.regs.get_mut(&reg(1)) else { return "bad-op".into() };
                let data = unhex(f[3]);
                match verif::push_pdu_slice_rest(fr, parse_cmd(f[2]), &data) {
                    Ok(Some((k, h))) => format!("some.{k}.{}", show_handle(&h)),
                    Ok(None) => "none".into(),
                    Err(PduError::TooLong) => "toolong".into(),
                    Err(e) => err_token(&Error::Pdu(e)),
                }
            }
            "mk" => {
                let Some(H::Created(fr)) = self.regs.remove(&reg(1)) else { return "bad-op".into() };
                let retries: usize = f[2].parse().unwrap();
                let timeout: u64 = f[3].parse().unwrap();
                let fut = verif::mark_sendable(fr, self.pdu_loop, Duration::from_micros(timeout), retries);
                self.regs.insert(reg(1), H::Fut(Box::pin(fut)));
                "ok".into()
            }
            "dc" => match self.regs.remove(&reg(1)) {
                Some(H::Created(fr)) => {
                    drop(fr);
                    "ok".into()
                }
                _ => "bad-op".into(),
            },
            "tn" => {
                // like a poll of `tx_rx_task`: the task's "woken" bit is consumed, the waker registered anew, then
                // the scan; a wake-up that arrives from here on is remembered in `tx_woken`
                if let Some(tx) = self.tx.as_ref() {
                    self.tx_woken.0.store(false, std::sync::atomic::Ordering::SeqCst);
                    tx.replace_waker(&std::task::Waker::from(self.tx_woken.clone()));
                }
                self.step_tn(reg(1))
            }
            "ts" => {
                let Some(H::Sendable(sf)) = self.regs.remove(&reg(1)) else { return "bad-op".into() };
                let outcome: u32 = f[2].parse().unwrap();
                let mut seen = Vec::new();
                let mut on_send = self.on_send.take();
                let res = sf.send_blocking(|b| {
                    seen = b.to_vec();
                    if outcome == 0 {
                        if let Some(cb) = on_send.as_mut() {
                            cb(b);
                        }
                    }
                    match outcome {
                        0 => Ok(b.len()),
                        1 => Ok(b.len().saturating_sub(1)),
                        _ => Err(Error::SendFrame),
                    }
                });
                self.on_send = on_send;
                let tag = match (outcome, &res) {
                    (0, Ok(_)) => "ok",
                    (1, Err(Error::PartialSend { .. })) => "partial",
                    (2, Err(Error::SendFrame)) => "err",
                    _ => "unexpected",
                };
                format!("{tag}.{}", if seen.is_empty() { String::new() } else { hex(&seen) })
            }
            "rx" => {
                let bytes = unhex(f[1]);
                match self.rx.as_mut().expect("rx role").receive_frame(&bytes) {
                    Ok(ethercrab::ReceiveAction::Ignored) => "ignored".into(),
                    Ok(ethercrab::ReceiveAction::Processed) => "processed".into(),
                    Err(e) => err_token(&e),
                }
            }
            "po" => {
                if let Some(tx) = self.tx.as_ref() {
                    self.tx_woken.0.store(false, std::sync::atomic::Ordering::SeqCst);
                    tx.replace_waker(&std::task::Waker::from(self.tx_woken.clone()));
                }
                let wid = self.wid;
                let Some(H::Fut(fut)) = self.regs.get_mut(&reg(1)) else { return "bad-op".into() };
                let waker = std::task::Waker::from(std::sync::Arc::new(FutWaker { wid, reg: reg(1) }));
                let mut cx = core::task::Context::from_waker(&waker);
                match fut.as_mut().poll(&mut cx) {
                    core::task::Poll::Pending => "pending".into(),
                    core::task::Poll::Ready(Ok(fr)) => {
                        self.regs.insert(reg(1), H::Received(fr));
                        "ready.ok".into()
                    }
                    core::task::Poll::Ready(Err(e)) => {
                        self.regs.remove(&reg(1));
                        format!("ready.{}", err_token(&e))
                    }
                }
            }
            "df" => match self.regs.remove(&reg(1)) {
                Some(H::Fut(fut)) => {
                    drop(fut);
                    "ok".into()
                }
                _ => "bad-op".into(),
            },
            "fp" => {
                let Some(H::Received(fr)) = self.regs.remove(&reg(1)) else { return "bad-op".into() };
                let handle = PduResponseHandle {
                    index_in_frame: 0,
                    command_code: f[2].parse().unwrap(),
                    pdu_idx: f[3].parse().unwrap(),
                    alloc_size: 0,
                };
                match fr.first_pdu(handle) {
                    Ok(v) => {
                        let s = format!("ok.{}.{}", v.len(), verif::pdu_wkc(&v));
                        self.regs.insert(reg(1), H::View(v));
                        s
                    }
                    Err(e) => err_token(&e),
                }
            }
            "it" => {
                let Some(H::Received(fr)) = self.regs.remove(&reg(1)) else { return "bad-op".into() };
                let max: usize = f[2].parse().unwrap();
                let mut items = Vec::new();
                for item in fr.into_pdu_iter().take(max) {
                    match item {
                        Ok(p) => {
                            let b: Vec<u8> = p.to_vec(); // exactly one Deref
                            items.push(format!("{}.{}", if b.is_empty() { String::new() } else { hex(&b) }, verif::pdu_wkc(&p)))
                        }
                        Err(e) => items.push(err_token(&e)),
                    }
                }
                items.join(",")
            }
            "dr" => match self.regs.remove(&reg(1)) {
                Some(H::Received(fr)) => {
                    drop(fr);
                    "ok".into()
                }
                _ => "bad-op".into(),
            },
            "vr" => {
                let Some(H::View(v)) = self.regs.get(&reg(1)) else { return "bad-op".into() };
                let b: Vec<u8> = v.to_vec(); // exactly one Deref
                format!("{}.{}.{}", if b.is_empty() { String::new() } else { hex(&b) }, v.len(), verif::pdu_wkc(v))
            }
            "vt" => {
                let Some(H::View(v)) = self.regs.get_mut(&reg(1)) else { return "bad-op".into() };
                v.trim_front(f[2].parse().unwrap());
                "ok".into()
            }
            "dv" => match self.regs.remove(&reg(1)) {
                Some(H::View(v)) => {
                    drop(v);
                    "ok".into()
                }
                _ => "bad-op".into(),
            },
            "ad" => {
                crate::clock::advance(f[1].parse().unwrap());
                "ok".into()
            }
            "rs" => {
                unsafe { verif::reset_shared(self.pdu_loop) };
                "ok".into()
            }
            "sn" => self.snapshot(),
            "no" => "ok".into(),
            _ => "bad-op".into(),
        }
    }
}

/// Run one case line `<key> <n> <data> <fi> <pi> <ops>` on the real code; returns the answer line.
pub fn run_line(line: &str) -> (String, World) {
    let t: Vec<&str> = line.split(' ').collect();
    let mut w = World::new(t[1].parse().unwrap(), t[2].parse().unwrap(), t[3].parse().unwrap(), t[4].parse().unwrap());
    let outs: Vec<String> = t[5].split(';').map(|op| w.step(op)).collect();
    (outs.join(";"), w)
}

// The harness moves a World (with the real handles it holds) into the worker thread that uses it;
// the baton scheduler guarantees one thread runs at a time.
unsafe impl Send for World {}
