/-
  C19 — lemmas about the hand-written impls of impls.rs (EcModel/WireImpls.lean): the chunk pipeline of the
  `heapless::Vec` / `[T; N]` decoders, the tuple walk, UTF-8 validation of encoded scalar values.
-/
import EcModel.WireImpls
import EcModel.Lemmas.WireCodecs

namespace Ec.Wire
open Ec

/-! ### chunks -/

theorem chunksN_length (size : Nat) : ∀ (k : Nat) (buf : List Nat), (chunksN size k buf).length = k
  | 0, _ => rfl
  | k + 1, buf => by simp [chunksN, chunksN_length size k]

theorem chunksN_take (size : Nat) : ∀ (n m : Nat) (buf : List Nat),
    (chunksN size m buf).take n = chunksN size (min n m) buf
  | 0, m, buf => by simp [chunksN]
  | n + 1, 0, buf => by simp [chunksN]
  | n + 1, m + 1, buf => by
    have : min (n + 1) (m + 1) = min n m + 1 := by omega
    rw [this]
    simp [chunksN, chunksN_take size n m]

/-- Every chunk is complete when the buffer holds `k` of them. -/
theorem chunksN_mem_length (size : Nat) : ∀ (k : Nat) (buf : List Nat), k * size ≤ buf.length →
    ∀ ch ∈ chunksN size k buf, ch.length = size
  | 0, _, _, ch, h => by simp [chunksN] at h
  | k + 1, buf, hl, ch, h => by
    have hl' : k * size + size ≤ buf.length := by rw [Nat.succ_mul] at hl; exact hl
    simp only [chunksN, List.mem_cons] at h
    rcases h with h | h
    · subst h
      rw [List.length_take]
      omega
    · exact chunksN_mem_length size k (buf.drop size) (by rw [List.length_drop]; omega) ch h

/-- As long as the vector has room for all chunks, collecting is decoding chunk after chunk, first failure wins. -/
theorem collect_eq_decChunks (c : Codec) (cap : Nat) : ∀ (k pushed : Nat) (buf : List Nat), pushed + k ≤ cap →
    collectHeapless c.dec cap pushed (chunksN c.len k buf) = decChunks c k buf
  | 0, _, _, _ => rfl
  | k + 1, pushed, buf, h => by
    have hp : pushed < cap := by omega
    simp only [chunksN, collectHeapless, decChunks, hp, if_true]
    rw [collect_eq_decChunks c cap k (pushed + 1) (buf.drop c.len) (by omega)]

/-- More `Ok` elements than the vector has room for: heapless' `FromIterator` panics. -/
theorem collect_overflow (dec : List Nat → Out Val) (cap : Nat) : ∀ (chs : List (List Nat)) (pushed : Nat),
    (∀ ch ∈ chs, ∃ v, dec ch = .ok v) → cap < pushed + chs.length → pushed ≤ cap →
    collectHeapless dec cap pushed chs = .panic "Vec::from_iter overflow"
  | [], pushed, _, h1, h2 => by simp at h1; omega
  | ch :: rest, pushed, hok, h1, h2 => by
    obtain ⟨v, hv⟩ := hok ch (List.mem_cons_self ..)
    simp only [collectHeapless, hv, bindO]
    by_cases hp : pushed < cap
    · simp only [hp, if_true]
      rw [collect_overflow dec cap rest (pushed + 1) (fun x hx => hok x (List.mem_cons_of_mem _ hx))
        (by simp only [List.length_cons] at h1; omega) (by omega)]
    · simp [hp]

/-- `decChunks` never panics when the element decoder does not. -/
theorem decChunks_total' (c : Codec) (hc : ∀ b why, c.dec b ≠ .panic why) : ∀ (n : Nat) (buf : List Nat) (why : String),
    decChunks c n buf ≠ .panic why
  | 0, _, _ => by simp [decChunks]
  | n + 1, buf, why => by
    simp only [decChunks]
    cases h1 : c.dec (buf.take c.len) with
    | panic w => exact absurd h1 (hc _ _)
    | err e => simp [bindO]
    | ok v =>
      cases h2 : decChunks c n (buf.drop c.len) with
      | panic w => exact absurd h2 (decChunks_total' c hc n _ w)
      | err e => simp [bindO]
      | ok vs => simp [bindO]

/-- What `decChunks` returns: `n` values, the `i`-th decoded from bytes `[i * len, i * len + len)`. -/
theorem decChunks_get (c : Codec) : ∀ (n : Nat) (buf : List Nat) (vs : List Val), decChunks c n buf = .ok vs →
    vs.length = n ∧ ∀ i (h : i < vs.length), c.dec (slice buf (i * c.len) (i * c.len + c.len)) = .ok vs[i]
  | 0, _, vs, h => by
    simp only [decChunks, Outcome.ok.injEq] at h
    subst h
    exact ⟨rfl, fun i h => by simp at h⟩
  | n + 1, buf, vs, h => by
    simp only [decChunks] at h
    obtain ⟨v, hv, h⟩ := bindO_eq_ok.mp h
    obtain ⟨vs', hvs', h⟩ := bindO_eq_ok.mp h
    simp only [Outcome.ok.injEq] at h
    subst h
    obtain ⟨hl, hg⟩ := decChunks_get c n (buf.drop c.len) vs' hvs'
    refine ⟨by simp [hl], ?_⟩
    intro i hi
    cases i with
    | zero => simpa [slice] using hv
    | succ i =>
      have := hg i (by simpa using hi)
      simp only [slice, List.drop_drop] at this
      simp only [slice, List.getElem_cons_succ]
      have e1 : (i + 1) * c.len = c.len + i * c.len := by rw [Nat.succ_mul]; omega
      have e2 : c.len + i * c.len + c.len - (c.len + i * c.len) = i * c.len + c.len - i * c.len := by omega
      rw [e1, e2]
      exact this

/-- Unsigned primitives: every complete chunk decodes. -/
theorem decChunks_uN (k : Nat) : ∀ (n : Nat) (buf : List Nat), n * k ≤ buf.length →
    ∃ vs, decChunks (Codec.uN k) n buf = .ok vs
  | 0, _, _ => ⟨[], rfl⟩
  | n + 1, buf, h => by
    have h' : n * k + k ≤ buf.length := by rw [Nat.succ_mul] at h; exact h
    obtain ⟨vs, hvs⟩ := decChunks_uN k n (buf.drop k) (by rw [List.length_drop]; omega)
    have h1 : ¬ (buf.take k).length < k := by rw [List.length_take]; omega
    refine ⟨.int (leVal ((buf.take k).take k)) :: vs, ?_⟩
    simp only [decChunks, Codec.uN, h1, if_false, bindO]
    simp only [Codec.uN] at hvs
    rw [hvs]

/-! ### `heapless::Vec` -/

/-- `heapless::Vec<T, N>::unpack_from_slice` = the first `min N ⌊len / size⌋` elements, decoded one after the other. -/
theorem hvecDec_eq (c : Codec) (hpos : 0 < c.len) (n : Nat) (buf : List Nat) :
    hvecDec c n buf = bindO (decChunks c (min n (buf.length / c.len)) buf) fun vs => .ok (.seq vs) := by
  have h0 : ¬ c.len = 0 := by omega
  simp only [hvecDec, chunksExact, h0, if_false, bindO_ok]
  rw [chunksN_take, collect_eq_decChunks c n _ 0 buf (by omega)]

/-- Without `.take(N)`: a buffer holding more than `N` decodable elements makes `collect` panic. -/
theorem hvecDecNoTake_overflow (c : Codec) (hpos : 0 < c.len) (hfull : ∀ ch, ch.length = c.len → ∃ v, c.dec ch = .ok v)
    (n : Nat) (buf : List Nat) (hl : (n + 1) * c.len ≤ buf.length) :
    hvecDecNoTake c n buf = .panic "Vec::from_iter overflow" := by
  have h0 : ¬ c.len = 0 := by omega
  have hk : n + 1 ≤ buf.length / c.len := (Nat.le_div_iff_mul_le hpos).mpr hl
  simp only [hvecDecNoTake, chunksExact, h0, if_false, bindO_ok]
  rw [collect_overflow c.dec n _ 0
    (fun ch hch => hfull ch (chunksN_mem_length c.len _ buf (Nat.div_mul_le_self _ _) ch hch))
    (by rw [chunksN_length]; omega) (by omega)]
  rfl

/-! ### `[T; N]` -/

/-- The line-by-line model of the `[T; N]` decoder is the `Codec.array` of Wire.lean (which the struct theorems use); in
    particular its `into_array` failure branch (`ArrayLength`) is unreachable. -/
theorem arrayDecImpl_eq_codec (c : Codec) (n : Nat) (buf : List Nat) :
    arrayDecImpl c n buf = (Codec.array c n).dec buf := by
  simp only [arrayDecImpl, Codec.array]
  by_cases hs : buf.length < c.len * n
  · simp [hs]
  · simp only [hs, if_false]
    by_cases h0 : c.len = 0
    · simp [chunksExact, h0, bindO]
    · have hpos : 0 < c.len := by omega
      simp only [chunksExact, h0, if_false, bindO_ok]
      have hlen : (buf.take (c.len * n)).length = c.len * n := by rw [List.length_take]; omega
      have hdiv : (buf.take (c.len * n)).length / c.len = n := by
        rw [hlen, Nat.mul_comm, Nat.mul_div_cancel _ hpos]
      rw [hdiv, chunksN_take, Nat.min_self, collect_eq_decChunks c n n 0 _ (by omega)]
      cases hd : decChunks c n (List.take (c.len * n) buf) with
      | panic w => rfl
      | err e => rfl
      | ok vs =>
        have := (decChunks_get c n _ vs hd).1
        simp [bindO, this]

/-! ### tuples -/

/-- Components decoded at consecutive offsets: component `i` from the bytes starting at `sumLen (cs.take i)`. -/
def decTupleSpec : List Codec → List Nat → Out (List Val)
  | [], _ => .ok []
  | c :: cs, buf =>
    bindO (c.dec (buf.take c.len)) fun v => bindO (decTupleSpec cs (buf.drop c.len)) fun vs => .ok (v :: vs)

def AllLawfulC : List Codec → Prop
  | [] => True
  | c :: cs => Lawful c ∧ AllLawfulC cs

/-- A lawful decoder that succeeds was given at least `PACKED_LEN` bytes. -/
theorem Lawful.len_le_of_ok {c : Codec} (hc : Lawful c) {buf : List Nat} {v : Val} (h : c.dec buf = .ok v) :
    c.len ≤ buf.length := by
  by_cases hl : buf.length < c.len
  · rw [hc.dec_short buf hl] at h; cases h
  · omega

/-- For a buffer of at least the packed length, the `if buf.len() > 0 { buf = &buf[PACKED_LEN..] }` walk is the plain
    consecutive-offset decode. -/
theorem decTuple_eq_spec : ∀ (cs : List Codec) (buf : List Nat), AllLawfulC cs → sumLen cs ≤ buf.length →
    decTuple cs buf = decTupleSpec cs buf
  | [], _, _, _ => rfl
  | c :: cs, buf, hl, hlen => by
    obtain ⟨hc, hcs⟩ := hl
    simp only [sumLen] at hlen
    simp only [decTuple, decTupleSpec]
    rw [← hc.dec_prefix buf (by omega)]
    cases hd : c.dec buf with
    | panic w => rfl
    | err e => rfl
    | ok v =>
      simp only [bindO]
      have h1 : ¬ (buf.length > 0 ∧ c.len > buf.length) := by omega
      simp only [h1, if_false]
      by_cases hb : buf.length > 0
      · simp only [hb, if_true]
        rw [decTuple_eq_spec cs (buf.drop c.len) hcs (by rw [List.length_drop]; omega)]
      · have hb0 : buf = [] := by
          cases buf with
          | nil => rfl
          | cons _ _ => simp at hb
        subst hb0
        simp only [List.length_nil, Nat.lt_irrefl, if_false, gt_iff_lt, List.drop_nil]
        rw [decTuple_eq_spec cs [] hcs (by simp at hlen ⊢; omega)]

theorem bindO_ne_panic {α β : Type} {x : Out α} {f : α → Out β} (hx : ∀ w, x ≠ .panic w) (hf : ∀ a w, f a ≠ .panic w)
    (w : String) : bindO x f ≠ .panic w := by
  cases x with
  | ok a => exact hf a w
  | err e => simp [bindO]
  | panic w' => exact absurd rfl (hx w')

theorem bindO_err_of_err {α β : Type} {x : Out α} {f : α → Out β} (hx : ∃ e, x = .err e) : ∃ e, bindO x f = .err e := by
  obtain ⟨e, rfl⟩ := hx
  exact ⟨e, rfl⟩

/-- The walk never panics over lawful components, whatever the buffer. -/
theorem decTuple_total : ∀ (cs : List Codec) (buf : List Nat) (why : String), AllLawfulC cs →
    decTuple cs buf ≠ .panic why
  | [], _, _, _ => by simp [decTuple]
  | c :: cs, buf, why, hl => by
    obtain ⟨hc, hcs⟩ := hl
    simp only [decTuple]
    cases hd : c.dec buf with
    | panic w => exact absurd hd (hc.dec_total _ _)
    | err e => simp [bindO]
    | ok v =>
      have hle := hc.len_le_of_ok hd
      have h1 : ¬ (buf.length > 0 ∧ c.len > buf.length) := by omega
      rw [bindO_ok]
      simp only [h1, if_false]
      exact bindO_ne_panic (fun w => decTuple_total cs _ w hcs) (fun a w => by simp) why

/-- The component's own decoder does not panic. -/
def DecTotal (c : Codec) : Prop := ∀ b why, c.dec b ≠ .panic why

/-- The walk never panics, whatever the components do with short buffers: there is no panic site left in it. -/
theorem decTuple_total' : ∀ (cs : List Codec) (buf : List Nat) (why : String), (∀ c ∈ cs, DecTotal c) →
    decTuple cs buf ≠ .panic why
  | [], _, _, _ => by simp [decTuple]
  | c :: cs, buf, why, h => by
    simp only [decTuple]
    cases hd : c.dec buf with
    | panic w => exact absurd hd (h c (List.mem_cons_self ..) _ _)
    | err e => simp [bindO]
    | ok v =>
      rw [bindO_ok]
      split
      · simp
      · exact bindO_ne_panic (fun w => decTuple_total' cs _ w (fun x hx => h x (List.mem_cons_of_mem _ hx)))
          (fun a w => by simp) why

/-- A buffer shorter than the sum of the components' lengths is refused (by the first component that fails). -/
theorem decTuple_short : ∀ (cs : List Codec) (buf : List Nat), AllLawfulC cs → buf.length < sumLen cs →
    ∃ e, decTuple cs buf = .err e
  | [], _, _, h => by simp [sumLen] at h
  | c :: cs, buf, hl, hlen => by
    obtain ⟨hc, hcs⟩ := hl
    simp only [sumLen] at hlen
    simp only [decTuple]
    cases hd : c.dec buf with
    | panic w => exact absurd hd (hc.dec_total _ _)
    | err e => exact ⟨e, rfl⟩
    | ok v =>
      have hle := hc.len_le_of_ok hd
      have h1 : ¬ (buf.length > 0 ∧ c.len > buf.length) := by omega
      rw [bindO_ok]
      simp only [h1, if_false]
      apply bindO_err_of_err
      apply decTuple_short cs _ hcs
      by_cases hb : buf.length > 0
      · simp only [hb, if_true, List.length_drop]; omega
      · simp only [hb, if_false]; omega

/-- The values handed to a tuple's packer are values of the component types. -/
def validTuple : List Codec → List Val → Prop
  | [], [] => True
  | c :: cs, v :: vs => c.valid v ∧ validTuple cs vs
  | _, _ => False

theorem encTuple_ok : ∀ (cs : List Codec) (vs : List Val), AllLawfulC cs → validTuple cs vs →
    ∃ bs, encTuple cs vs = .ok bs ∧ bs.length = sumLen cs ∧ AllBytes bs
  | [], [], _, _ => ⟨[], rfl, rfl, allBytes_nil⟩
  | [], _ :: _, _, h => by simp [validTuple] at h
  | _ :: _, [], _, h => by simp [validTuple] at h
  | c :: cs, v :: vs, hl, hv => by
    obtain ⟨hc, hcs⟩ := hl
    obtain ⟨hv1, hv2⟩ := hv
    obtain ⟨b, hb⟩ := hc.enc_ok v hv1
    obtain ⟨bl, ba⟩ := hc.enc_len v b hb
    obtain ⟨bs, hbs, hbl, hba⟩ := encTuple_ok cs vs hcs hv2
    exact ⟨b ++ bs, by simp [encTuple, hb, hbs, bindO], by simp [sumLen, bl, hbl], allBytes_append.mpr ⟨ba, hba⟩⟩

/-- The `split_at_mut` walk stores the components' encodings back to back and leaves the rest of the buffer alone. -/
theorem tuplePackWalk_eq : ∀ (cs : List Codec) (vs : List Val) (buf : List Nat), AllLawfulC cs → sumLen cs ≤ buf.length →
    tuplePackWalk cs vs buf = bindO (encTuple cs vs) fun bs => .ok (bs ++ buf.drop (sumLen cs))
  | [], [], buf, _, _ => by simp [tuplePackWalk, encTuple, sumLen, bindO]
  | [], _ :: _, _, _, _ => by simp [tuplePackWalk, encTuple, illTyped, bindO]
  | _ :: _, [], _, _, _ => by simp [tuplePackWalk, encTuple, illTyped, bindO]
  | c :: cs, v :: vs, buf, hl, hlen => by
    obtain ⟨hc, hcs⟩ := hl
    simp only [sumLen] at hlen
    have h1 : ¬ buf.length < c.len := by omega
    have h2 : ¬ (buf.take c.len).length < c.len := by rw [List.length_take]; omega
    simp only [tuplePackWalk, encTuple, h1, if_false, Codec.packU, h2]
    rw [tuplePackWalk_eq cs vs (buf.drop c.len) hcs (by rw [List.length_drop]; omega)]
    cases he : c.enc v with
    | panic w => rfl
    | err e => rfl
    | ok b =>
      have hbl := (hc.enc_len v b he).1
      simp only [bindO]
      cases encTuple cs vs with
      | panic w => rfl
      | err e => rfl
      | ok bs =>
        have hd : List.drop c.len (List.take c.len buf) = [] := by
          apply List.drop_eq_nil_of_le
          rw [List.length_take]; omega
        simp only [hd, List.append_nil, List.drop_drop, sumLen, List.append_assoc]

/-- Decoding the concatenated encodings of the components gives the components back. -/
theorem decTupleSpec_roundtrip : ∀ (cs : List Codec) (vs : List Val) (bs extra : List Nat), AllLawfulC cs →
    validTuple cs vs → encTuple cs vs = .ok bs → decTupleSpec cs (bs ++ extra) = .ok vs
  | [], [], bs, extra, _, _, _ => rfl
  | [], _ :: _, _, _, _, h, _ => by simp [validTuple] at h
  | _ :: _, [], _, _, _, h, _ => by simp [validTuple] at h
  | c :: cs, v :: vs, bs, extra, hl, hv, he => by
    obtain ⟨hc, hcs⟩ := hl
    obtain ⟨hv1, hv2⟩ := hv
    simp only [encTuple] at he
    obtain ⟨b, hb, he⟩ := bindO_eq_ok.mp he
    obtain ⟨bs', hbs', he⟩ := bindO_eq_ok.mp he
    simp only [Outcome.ok.injEq] at he
    subst he
    have hbl := (hc.enc_len v b hb).1
    simp only [decTupleSpec, List.append_assoc]
    rw [← hbl, List.take_left' rfl, List.drop_left' rfl, hc.roundtrip v b hv1 hb,
      decTupleSpec_roundtrip cs vs bs' extra hcs hv2 hbs']
    rfl

/-! ### positions -/

/-- Only the first `n * len` bytes are looked at. -/
theorem decChunks_take (c : Codec) : ∀ (n m : Nat) (buf : List Nat), n * c.len ≤ m →
    decChunks c n (buf.take m) = decChunks c n buf
  | 0, _, _, _ => rfl
  | n + 1, m, buf, h => by
    have h' : n * c.len + c.len ≤ m := by rw [Nat.succ_mul] at h; exact h
    simp only [decChunks]
    have e1 : (buf.take m).take c.len = buf.take c.len := by
      rw [List.take_take, Nat.min_eq_left (by omega)]
    have e2 : (buf.take m).drop c.len = (buf.drop c.len).take (m - c.len) := by
      rw [List.drop_take]
    rw [e1, e2, decChunks_take c n (m - c.len) (buf.drop c.len) (by omega)]

theorem slice_drop (buf : List Nat) (k a w : Nat) : slice (buf.drop k) a (a + w) = slice buf (k + a) (k + a + w) := by
  simp only [slice, List.drop_drop]
  congr 1 <;> omega

/-- Where the consecutive-offset decode reads component `i`: at offset `sumLen (cs.take i)`. -/
theorem decTupleSpec_get : ∀ (cs : List Codec) (buf : List Nat) (vs : List Val), decTupleSpec cs buf = .ok vs →
    vs.length = cs.length ∧
    ∀ (i : Nat) (c : Codec) (v : Val), cs[i]? = some c → vs[i]? = some v →
      c.dec (slice buf (sumLen (cs.take i)) (sumLen (cs.take i) + c.len)) = .ok v
  | [], _, vs, h => by
    simp only [decTupleSpec, Outcome.ok.injEq] at h
    subst h
    exact ⟨rfl, fun i c v hc => by simp at hc⟩
  | c0 :: cs, buf, vs, h => by
    simp only [decTupleSpec] at h
    obtain ⟨v0, hv0, h⟩ := bindO_eq_ok.mp h
    obtain ⟨vs', hvs', h⟩ := bindO_eq_ok.mp h
    simp only [Outcome.ok.injEq] at h
    subst h
    obtain ⟨hl, hg⟩ := decTupleSpec_get cs (buf.drop c0.len) vs' hvs'
    refine ⟨by simp [hl], ?_⟩
    intro i c v hc hv
    cases i with
    | zero =>
      simp only [List.getElem?_cons_zero, Option.some.injEq] at hc hv
      subst hc; subst hv
      simpa [slice, sumLen] using hv0
    | succ i =>
      simp only [List.getElem?_cons_succ] at hc hv
      have := hg i c v hc hv
      rw [slice_drop] at this
      simpa [sumLen] using this

/-- Where the packed image holds component `i`: at offset `sumLen (cs.take i)`. -/
theorem encTuple_get : ∀ (cs : List Codec) (vs : List Val) (bs : List Nat), AllLawfulC cs → encTuple cs vs = .ok bs →
    ∀ (i : Nat) (c : Codec) (v : Val), cs[i]? = some c → vs[i]? = some v →
      c.enc v = .ok (slice bs (sumLen (cs.take i)) (sumLen (cs.take i) + c.len))
  | [], [], _, _, _ => fun i c v hc => by simp at hc
  | [], _ :: _, _, _, h => by simp [encTuple, illTyped] at h
  | _ :: _, [], _, _, h => by simp [encTuple, illTyped] at h
  | c0 :: cs, v0 :: vs, bs, hl, h => by
    obtain ⟨hc0, hcs⟩ := hl
    simp only [encTuple] at h
    obtain ⟨b, hb, h⟩ := bindO_eq_ok.mp h
    obtain ⟨bs', hbs', h⟩ := bindO_eq_ok.mp h
    simp only [Outcome.ok.injEq] at h
    subst h
    have hbl := (hc0.enc_len v0 b hb).1
    intro i c v hc hv
    cases i with
    | zero =>
      simp only [List.getElem?_cons_zero, Option.some.injEq] at hc hv
      subst hc; subst hv
      simp only [List.take_zero, sumLen, slice, List.drop_zero, Nat.zero_add, Nat.sub_zero]
      rw [← hbl, List.take_left' rfl]
      exact hb
    | succ i =>
      simp only [List.getElem?_cons_succ] at hc hv
      have := encTuple_get cs vs bs' hcs hbs' i c v hc hv
      rw [this]
      congr 1
      have e : slice (b ++ bs') (c0.len + sumLen (cs.take i)) (c0.len + sumLen (cs.take i) + c.len) =
          slice ((b ++ bs').drop c0.len) (sumLen (cs.take i)) (sumLen (cs.take i) + c.len) := (slice_drop _ _ _ _).symm
      simp only [List.take_succ_cons, sumLen]
      rw [e, ← hbl, List.drop_left' rfl]

/-- The `split_at_mut` walk panics when the destination is shorter than the tuple's packed length. -/
theorem tuplePackWalk_short : ∀ (cs : List Codec) (vs : List Val) (buf : List Nat), AllLawfulC cs → validTuple cs vs →
    buf.length < sumLen cs → ∃ why, tuplePackWalk cs vs buf = .panic why
  | [], [], _, _, _, h => by simp [sumLen] at h
  | [], _ :: _, _, _, h, _ => by simp [validTuple] at h
  | _ :: _, [], _, _, h, _ => by simp [validTuple] at h
  | c :: cs, v :: vs, buf, hl, hv, hlen => by
    obtain ⟨hc, hcs⟩ := hl
    obtain ⟨hv1, hv2⟩ := hv
    simp only [sumLen] at hlen
    simp only [tuplePackWalk]
    by_cases h1 : buf.length < c.len
    · exact ⟨"mid > len", by simp only [h1, if_true]⟩
    · obtain ⟨b, hb⟩ := hc.enc_ok v hv1
      have h2 : ¬ (buf.take c.len).length < c.len := by rw [List.length_take]; omega
      obtain ⟨w, hw⟩ := tuplePackWalk_short cs vs (buf.drop c.len) hcs hv2 (by rw [List.length_drop]; omega)
      exact ⟨w, by simp only [h1, if_false, Codec.packU, h2, hb, bindO, hw]⟩

/-! ### UTF-8 -/

/-- The validator accepts the encoding of every scalar value and goes on behind it. -/
theorem utf8Valid_encodeCp (cp : Nat) (h : isScalar cp) (rest : List Nat) :
    utf8Valid (encodeCp cp ++ rest) = utf8Valid rest := by
  unfold encodeCp isScalar at *
  by_cases h1 : cp < 128
  · rw [utf8Valid.eq_def]; simp [h1]
  · by_cases h2 : cp < 2048
    · have a1 : ¬ 192 + cp / 64 < 128 := by omega
      have a2 : 194 ≤ 192 + cp / 64 ∧ 192 + cp / 64 ≤ 223 := by omega
      have a3 : isCont (128 + cp % 64) = true := by simp [isCont]; omega
      rw [utf8Valid.eq_def]; simp [h1, h2, a1, a2, a3]
    · by_cases h3 : cp < 65536
      · have a1 : ¬ 224 + cp / 4096 < 128 := by omega
        have a2 : ¬ (194 ≤ 224 + cp / 4096 ∧ 224 + cp / 4096 ≤ 223) := by omega
        have a3 : 224 ≤ 224 + cp / 4096 ∧ 224 + cp / 4096 ≤ 239 := by omega
        have a4 : isCont (128 + cp % 64) = true := by simp [isCont]; omega
        have a5 : second3 (224 + cp / 4096) (128 + cp / 64 % 64) = true := by
          simp only [second3, isCont]
          split
          · simp; omega
          · split
            · simp; omega
            · simp; omega
        rw [utf8Valid.eq_def]; simp [h1, h2, h3, a1, a2, a3, a4, a5]
      · have a1 : ¬ 240 + cp / 262144 < 128 := by omega
        have a2 : ¬ (194 ≤ 240 + cp / 262144 ∧ 240 + cp / 262144 ≤ 223) := by omega
        have a3 : ¬ (224 ≤ 240 + cp / 262144 ∧ 240 + cp / 262144 ≤ 239) := by omega
        have a4 : 240 ≤ 240 + cp / 262144 ∧ 240 + cp / 262144 ≤ 244 := by omega
        have a5 : isCont (128 + cp % 64) = true := by simp [isCont]; omega
        have a6 : isCont (128 + cp / 64 % 64) = true := by simp [isCont]; omega
        have a7 : second4 (240 + cp / 262144) (128 + cp / 4096 % 64) = true := by
          simp only [second4, isCont]
          split
          · simp; omega
          · split
            · simp; omega
            · simp; omega
        rw [utf8Valid.eq_def]; simp [h1, h2, h3, a1, a2, a3, a4, a5, a6, a7]

theorem utf8Valid_encodeStr : ∀ (cps : List Nat), (∀ cp ∈ cps, isScalar cp) → utf8Valid (encodeStr cps) = true
  | [], _ => by simp [encodeStr, utf8Valid.eq_1]
  | cp :: cps, h => by
    simp only [encodeStr]
    rw [utf8Valid_encodeCp cp (h cp (List.mem_cons_self ..)),
      utf8Valid_encodeStr cps (fun x hx => h x (List.mem_cons_of_mem _ hx))]

end Ec.Wire
