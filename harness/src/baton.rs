//! Baton scheduler: every worker thread blocks at each `ethercrab::verif::yield_point(site)` until the
//! scheduler hands it the baton, so exactly one thread runs at a time and the interleaving of shared
//! accesses is chosen by the schedule (PRNG, enumerator or replay), not by the OS.
use std::cell::Cell;
use std::sync::{Arc, Condvar, Mutex};

#[derive(Clone, Copy, PartialEq, Debug)]
pub enum Status {
    Running,
    Waiting(u32),
    Finished,
}

pub struct Sched {
    m: Mutex<Inner>,
    cv: Condvar,
}

struct Inner {
    status: Vec<Status>,
    grant: Option<usize>,
}

thread_local! {
    static ME: Cell<usize> = const { Cell::new(usize::MAX) };
}

static CURRENT: Mutex<Option<Arc<Sched>>> = Mutex::new(None);

/// The function installed as ethercrab's yield hook.
pub fn hook(site: u32) {
    let me = ME.with(|m| m.get());
    if me == usize::MAX {
        return; // not a worker (scheduler thread inspecting state, or no schedule running)
    }
    let sched = CURRENT.lock().unwrap().clone();
    if let Some(s) = sched {
        s.arrive(me, site);
    }
}

impl Sched {
    fn arrive(&self, me: usize, site: u32) {
        let mut g = self.m.lock().unwrap();
        g.status[me] = Status::Waiting(site);
        self.cv.notify_all();
        while g.grant != Some(me) {
            g = self.cv.wait(g).unwrap();
        }
        g.grant = None;
    }

    fn finish(&self, me: usize) {
        let mut g = self.m.lock().unwrap();
        g.status[me] = Status::Finished;
        self.cv.notify_all();
    }
}

/// Run `workers` (one closure per thread) under a schedule. `choose` gets the list of waiting
/// threads `(tid, site)` and returns the index INTO THAT LIST of the thread to run one step, or
/// `None` to insert nothing; `after` is called after every step with (tid, site it was released from, site it now waits at).
/// Returns the schedule actually taken.
pub fn run<'a>(
    workers: Vec<Box<dyn FnOnce() + Send + 'a>>,
    mut choose: impl FnMut(&[(usize, u32)]) -> usize,
    mut after: impl FnMut(usize, u32, Option<u32>),
) -> Vec<usize> {
    ethercrab::verif::set_yield_hook(Some(hook));
    let n = workers.len();
    let sched = Arc::new(Sched { m: Mutex::new(Inner { status: vec![Status::Running; n], grant: None }), cv: Condvar::new() });
    *CURRENT.lock().unwrap() = Some(sched.clone());
    let mut taken = Vec::new();
    std::thread::scope(|scope| {
        for (i, w) in workers.into_iter().enumerate() {
            let s = sched.clone();
            scope.spawn(move || {
                ME.with(|m| m.set(i));
                // first yield: every thread starts parked
                s.arrive(i, 0);
                let r = std::panic::catch_unwind(std::panic::AssertUnwindSafe(w));
                let _ = r;
                ME.with(|m| m.set(usize::MAX));
                s.finish(i);
            });
        }
        loop {
            let waiting: Vec<(usize, u32)> = {
                let mut g = sched.m.lock().unwrap();
                while g.status.iter().any(|s| *s == Status::Running) {
                    g = sched.cv.wait(g).unwrap();
                }
                g.status.iter().enumerate().filter_map(|(i, s)| if let Status::Waiting(site) = s { Some((i, *site)) } else { None }).collect()
            };
            if waiting.is_empty() {
                break;
            }
            let pick = choose(&waiting);
            let (tid, site) = waiting[pick];
            let now_at = {
                let mut g = sched.m.lock().unwrap();
                g.status[tid] = Status::Running;
                g.grant = Some(tid);
                sched.cv.notify_all();
                while g.status[tid] == Status::Running {
                    g = sched.cv.wait(g).unwrap();
                }
                if let Status::Waiting(s) = g.status[tid] { Some(s) } else { None }
            };
            if site != 0 {
                taken.push(tid);
                after(tid, site, now_at);
            }
        }
    });
    *CURRENT.lock().unwrap() = None;
    ethercrab::verif::set_yield_hook(None);
    taken
}
