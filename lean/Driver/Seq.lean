import EcModel.Drv.Seq
def main : IO Unit := Ec.Drv.runDriver Ec.Drv.Seq.handle
