//! C15 — SDO transfers deliver exactly the object's bytes, whatever the transfer type.
//!
//! The real `sdo_read` / `sdo_write` / `sdo_read_array` / `sdo_write_array` run against an HONEST CoE server:
//! the simulator's (`ecverif::sim::CoeServer`: expedited / normal / segmented with uniform segment size) and, for
//! arbitrary segment-length patterns, a second, independently written reference server in this file whose
//! replies are fed through the simulator's scripted-reply hook. Object sizes 0..512, mailboxes 16..1024, all
//! three upload modes, first part of the data in the initiate response or not, <7-byte segments, primitive /
//! array / string / vector destinations, complete access, every abort code, emergencies, stale messages in the
//! OUT mailbox. The Lean side (`drv_c15`) runs the client model against the SPECIFICATION server
//! (`EcModel/CoeServer.lean`) described by the same case line; answers (result, counter, reads, requests,
//! final dictionary) are diffed.
//!
//! Monitors (independent of both models): byte-compare of the value read against the dictionary; expected
//! error for aborts / emergencies / foreign responses / too-long objects; every download request byte for byte
//! and the dictionary afterwards; mailbox counter sequence 1..7.
use ecverif::coerig::*;
use ecverif::rng::Rng;
use ecverif::sim::{CoeServer, UploadMode};
use ecverif::util::{Report, hex};
use std::collections::BTreeMap;

const PROP: &str = "c15";

#[derive(Clone, Debug, PartialEq, Eq)]
enum Mode {
    Auto,
    Normal,
    /// first, segment sizes (after the list: as much as fits)
    Seg(usize, Vec<usize>),
}

#[derive(Clone, Debug)]
struct Srv {
    dict: BTreeMap<(u16, u8), Vec<u8>>,
    aborts: BTreeMap<(u16, u8), u32>,
    mode: Mode,
    scs: u8,
    emerg: Vec<[u8; 8]>,
}

#[derive(Clone, Debug)]
enum Dev {
    Server(Srv),
    /// scripted replies (foreign responses, compensating server)
    Script(Vec<Vec<Vec<u8>>>),
}

#[derive(Clone, Debug)]
struct Case {
    rmbx: u16,
    wmbx: u16,
    ctr: Option<u8>,
    stale: Vec<Vec<u8>>,
    dev: Dev,
    op: Op,
    what: &'static str,
    /// what an honest transfer must deliver (for scripted devices: set by the generator)
    expect: Option<Expect>,
}

#[derive(Clone, Debug, PartialEq, Eq)]
enum Expect {
    Value(Vec<u8>),
    Result(String),
}

fn sizes_token(v: &[usize]) -> String {
    let mut out = Vec::new();
    let mut i = 0;
    while i < v.len() {
        let mut j = i;
        while j < v.len() && v[j] == v[i] {
            j += 1;
        }
        if j - i > 1 { out.push(format!("{}*{}", j - i, v[i])) } else { out.push(v[i].to_string()) }
        i = j;
    }
    out.join(".")
}

fn parse_sizes(parts: &[&str]) -> Vec<usize> {
    let mut out = Vec::new();
    for p in parts {
        if let Some((n, k)) = p.split_once('*') {
            for _ in 0..n.parse::<usize>().unwrap_or(0) {
                out.push(k.parse().unwrap_or(0));
            }
        } else if !p.is_empty() {
            out.push(p.parse().unwrap_or(0));
        }
    }
    out
}

impl Srv {
    fn token(&self) -> String {
        let mode = match &self.mode {
            Mode::Auto => "auto".to_string(),
            Mode::Normal => "normal".to_string(),
            Mode::Seg(f, s) => {
                if s.is_empty() { format!("seg.{f}") } else { format!("seg.{f}.{}", sizes_token(s)) }
            }
        };
        let list = |v: Vec<String>| if v.is_empty() { "_".to_string() } else { v.join(",") };
        format!(
            "server:ctr=0;scs={};mode={};strict=1;aborts={};emerg={};dict={}",
            self.scs,
            mode,
            list(self.aborts.iter().map(|((i, s), c)| format!("{i}.{s}.{c}")).collect()),
            list(self.emerg.iter().map(|e| format!("{}.{}.{}", u16::from_le_bytes([e[0], e[1]]), e[2], hex(&e[3..]))).collect()),
            list(self.dict.iter().map(|((i, s), v)| format!("{i}.{s}.{}", hex(v))).collect()),
        )
    }

    fn parse(s: &str) -> Option<Srv> {
        let mut srv = Srv { dict: BTreeMap::new(), aborts: BTreeMap::new(), mode: Mode::Auto, scs: 0, emerg: vec![] };
        for kv in s.split(';') {
            let (k, v) = kv.split_once('=')?;
            match k {
                "scs" => srv.scs = v.parse().ok()?,
                "mode" => {
                    let p: Vec<&str> = v.split('.').collect();
                    srv.mode = match p[0] {
                        "auto" => Mode::Auto,
                        "normal" => Mode::Normal,
                        _ => Mode::Seg(p.get(1)?.parse().ok()?, parse_sizes(&p[2..])),
                    };
                }
                "aborts" if v != "_" => {
                    for e in v.split(',') {
                        let p: Vec<&str> = e.split('.').collect();
                        srv.aborts.insert((p[0].parse().ok()?, p[1].parse().ok()?), p[2].parse().ok()?);
                    }
                }
                "emerg" if v != "_" => {
                    for e in v.split(',') {
                        let p: Vec<&str> = e.split('.').collect();
                        let code: u16 = p[0].parse().ok()?;
                        let mut b = [0u8; 8];
                        b[..2].copy_from_slice(&code.to_le_bytes());
                        b[2] = p[1].parse().ok()?;
                        let d = ecverif::util::unhex(p[2]);
                        b[3..3 + d.len().min(5)].copy_from_slice(&d[..d.len().min(5)]);
                        srv.emerg.push(b);
                    }
                }
                "dict" if v != "_" => {
                    for e in v.split(',') {
                        let p: Vec<&str> = e.split('.').collect();
                        srv.dict.insert((p[0].parse().ok()?, p[1].parse().ok()?), ecverif::util::unhex(p[2]));
                    }
                }
                _ => {}
            }
        }
        Some(srv)
    }

    /// Bytes an upload must deliver (independent restatement of ETG1000.6 complete access).
    fn object(&self, index: u16, acc: &Access) -> Option<Vec<u8>> {
        match acc {
            Access::Index(s) => self.dict.get(&(index, *s)).cloned(),
            Access::Complete => {
                let mut out = Vec::new();
                for ((i, s), v) in self.dict.range((index, 1)..=(index, 255)) {
                    let _ = (i, s);
                    out.extend_from_slice(v);
                }
                if out.is_empty() { None } else { Some(out) }
            }
        }
    }

    /// Can the simulator's own server produce this behaviour? (uniform segment size)
    fn sim_mode(&self) -> Option<UploadMode> {
        match &self.mode {
            Mode::Auto => Some(UploadMode::Auto),
            Mode::Normal => Some(UploadMode::NoExpedited),
            Mode::Seg(f, s) => {
                if s.is_empty() {
                    None
                } else if s.iter().all(|k| *k == s[0]) && s.len() >= 600 {
                    Some(UploadMode::Segmented { first: *f, seg: s[0] })
                } else {
                    None
                }
            }
        }
    }
}

// ---------------------------------------------------------------- reference server (independent of sim and Lean)

struct RefServer {
    ctr: u8,
}

impl RefServer {
    fn frame(&mut self, service: u8, body: &[u8]) -> Vec<u8> {
        self.ctr = if self.ctr >= 7 { 1 } else { self.ctr + 1 };
        let mut m = ((2 + body.len()) as u16).to_le_bytes().to_vec();
        m.extend_from_slice(&[0, 0, 0, 3 | (self.ctr << 4), 0, service << 4]);
        m.extend_from_slice(body);
        m
    }

    /// Replies to an upload of `data` and the segment requests that follow, one entry per request.
    fn upload(&mut self, srv: &Srv, rmbx: usize, index: u16, sub: u8, complete: bool, data: &[u8]) -> Vec<Vec<Vec<u8>>> {
        let n = data.len();
        let ca = (complete as u8) << 4;
        let mut out = Vec::new();
        let mut first_entry: Vec<Vec<u8>> = srv.emerg.iter().map(|e| self.frame(1, e)).collect();
        if srv.mode == Mode::Auto && (1..=4).contains(&n) {
            let mut b = vec![0x43 | (((4 - n) as u8) << 2) | ca, index as u8, (index >> 8) as u8, sub];
            b.extend_from_slice(data);
            b.resize(8, 0);
            first_entry.push(self.frame(3, &b));
            return vec![first_entry];
        }
        let room = rmbx.saturating_sub(16);
        let (first, sizes): (usize, Vec<usize>) = match &srv.mode {
            Mode::Seg(f, s) if n > 4 => ((*f).min(room).min(n), s.clone()),
            _ => (n.min(room), vec![]),
        };
        let mut b = vec![0x41 | ca, index as u8, (index >> 8) as u8, sub];
        b.extend_from_slice(&(n as u32).to_le_bytes());
        b.extend_from_slice(&data[..first]);
        first_entry.push(self.frame(3, &b));
        out.push(first_entry);
        let mut pos = first;
        let mut toggle = false;
        let mut k_iter = sizes.into_iter();
        let seg_room = rmbx.saturating_sub(9).max(7);
        while pos < n {
            let k = k_iter.next().map(|k| k.max(1)).unwrap_or(seg_room).min(seg_room).min(n - pos);
            let last = pos + k >= n;
            let unused = if k < 7 { (7 - k) as u8 } else { 0 };
            let mut b = vec![(srv.scs << 5) | ((toggle as u8) << 4) | (unused << 1) | last as u8];
            b.extend_from_slice(&data[pos..pos + k]);
            b.resize(b.len().max(8), 0);
            out.push(vec![self.frame(3, &b)]);
            pos += k;
            toggle = !toggle;
        }
        out
    }
}

// ---------------------------------------------------------------- running one case

fn parse_case(line: &str) -> Option<Case> {
    let dev = field(line, "dev")?;
    let dev = if let Some(s) = dev.strip_prefix("script:") { Dev::Script(parse_script(s)) } else { Dev::Server(Srv::parse(dev.strip_prefix("server:")?)?) };
    Some(Case {
        rmbx: field(line, "rmbx")?.parse().ok()?,
        wmbx: field(line, "wmbx")?.parse().ok()?,
        ctr: field(line, "ctr")?.parse().ok(),
        stale: parse_msgs(field(line, "stale")?),
        dev,
        op: Op::parse(field(line, "op")?)?,
        what: "replay",
        expect: None,
    })
}

fn next_ctr(c: u8) -> u8 {
    if c >= 7 { 1 } else { c + 1 }
}

fn dest_capacity_bytes(d: &Dest) -> usize {
    match d {
        Dest::Warr(n) => 2 * n,
        other => other.buf_len(),
    }
}

/// Does the destination take a payload of exactly these bytes and hand all of them back?
fn dest_takes_all(d: &Dest, obj: &[u8]) -> bool {
    match d {
        Dest::U8 | Dest::U16 | Dest::U32 | Dest::U64 | Dest::Arr(_) | Dest::Warr(_) => obj.len() == dest_capacity_bytes(d),
        Dest::Str(n) => obj.len() <= *n && std::str::from_utf8(obj).is_ok(),
        Dest::Vecb(n) => obj.len() <= *n,
    }
}

fn expected_download(ctr: u8, index: u16, acc: &Access, value: &[u8], wmbx: usize) -> Vec<u8> {
    let (ca, sub) = match acc {
        Access::Complete => (0x10u8, 1u8),
        Access::Index(s) => (0, *s),
    };
    let mut m = vec![0x0a, 0, 0, 0, 0, 0x03 | (ctr << 4), 0, 0x20, 0x23 | ((((4 - value.len()) as u8) & 3) << 2) | ca, index as u8, (index >> 8) as u8, sub];
    m.extend_from_slice(value);
    m.resize(16, 0);
    m.resize(wmbx.max(16), 0);
    m.truncate(wmbx);
    m
}

fn run_case(rigs: &mut Rigs, rep: &mut Report, c: &Case) {
    let rig = rigs.get(c.rmbx, c.wmbx, true);
    rig.clear_mailboxes();
    if let Some(v) = c.ctr {
        rig.set_counter(v);
    }
    let dev_token;
    let mut via = "script";
    match &c.dev {
        Dev::Server(srv) => {
            dev_token = srv.token();
            let mut server = CoeServer::new(srv.dict.clone());
            server.aborts = srv.aborts.clone();
            server.seg_response_scs = srv.scs;
            match srv.sim_mode() {
                Some(m) => {
                    via = "sim-server";
                    server.upload_mode = m;
                    for e in &srv.emerg {
                        server.emergencies.push_back(*e);
                    }
                }
                None => {
                    // segment-length pattern: replies of the reference server, one entry per request
                    via = "ref-server";
                    if let Op::Read(_, index, acc) = &c.op {
                        let (sub, complete) = match acc {
                            Access::Complete => (1, true),
                            Access::Index(s) => (*s, false),
                        };
                        if let Some(obj) = srv.object(*index, acc) {
                            let mut r = RefServer { ctr: 0 };
                            for e in r.upload(srv, c.rmbx as usize, *index, sub, complete, &obj) {
                                server.raw_replies.push_back(e);
                            }
                            for _ in 0..8 {
                                server.raw_replies.push_back(vec![]);
                            }
                        }
                    }
                }
            }
            rig.net.seg.devices[0].coe = Some(server);
        }
        Dev::Script(sc) => {
            dev_token = format!("script:{}", script_token(sc));
            let mut server = CoeServer::new(BTreeMap::new());
            server.check_counter = false;
            for e in sc {
                server.raw_replies.push_back(e.clone());
            }
            for _ in 0..64 {
                server.raw_replies.push_back(vec![]);
            }
            rig.net.seg.devices[0].coe = Some(server);
        }
    }
    let o = rig.run_case(&c.op, &c.stale, 400_000);
    let od: BTreeMap<(u16, u8), Vec<u8>> = rig.coe().map(|s| s.od.clone()).unwrap_or_default();
    let od_token = if od.is_empty() { "_".to_string() } else { od.iter().map(|((i, s), v)| format!("{i}.{s}.{}", hex(v))).collect::<Vec<_>>().join(",") };
    let line = format!(
        "{PROP} mode={} rmbx={} wmbx={} mbx=1 ctr={} stale={} dev={} op={}",
        mode_token(),
        c.rmbx,
        c.wmbx,
        o.ctr_before,
        msgs_token(&c.stale),
        dev_token,
        c.op.token()
    );
    let answer = match &c.dev {
        Dev::Server(_) => format!("{} od={}", o.answer(), od_token),
        Dev::Script(_) => o.answer(),
    };
    rep.hit(&format!("what:{}", c.what));
    rep.hit(&format!("via:{via}"));
    rep.hit(&format!("op:{}", c.op.kind()));
    rep.hit(&format!("result:{}", if o.result.starts_with("ok") { "ok".to_string() } else { o.result.split('(').next().unwrap_or("").to_string() }));
    rep.hit(&format!("rmbx:{}", match c.rmbx { 0..=31 => "16-31", 32..=127 => "32-127", 128..=511 => "128-511", _ => "512-1024" }));

    // ---------------- monitors
    // mailbox counter: requests carry ctr, next(ctr), ...; the counter ends one past the last one drawn
    let mut expect_ctr = o.ctr_before;
    for (k, r) in o.reqs.iter().enumerate() {
        let got = r.get(5).map(|b| (b >> 4) & 7).unwrap_or(0);
        if got != expect_ctr || !(1..=7).contains(&got) {
            rep.fail("c15/counter", &format!("request {k} carries counter {got}, expected {expect_ctr}"), &line);
            break;
        }
        expect_ctr = next_ctr(expect_ctr);
    }
    let refused_write = matches!(&c.op, Op::Write(_, _, v) if v.len() > 4);
    if refused_write {
        expect_ctr = next_ctr(expect_ctr);
    }
    if o.ctr_after != expect_ctr && o.result != "panic" {
        rep.fail("c15/counter", &format!("counter after the operation is {}, expected {expect_ctr}", o.ctr_after), &line);
    }
    if let Dev::Server(srv) = &c.dev {
        let emergency = !srv.emerg.is_empty();
        match &c.op {
            Op::Read(d, index, acc) => {
                rep.hit(&format!("dest:{}", d.token().chars().next().unwrap()));
                let sub = match acc {
                    Access::Complete => 1,
                    Access::Index(s) => *s,
                };
                let obj = srv.object(*index, acc);
                let abort = srv.aborts.get(&(*index, sub)).copied().or(if obj.is_none() {
                    Some(if srv.dict.keys().any(|k| k.0 == *index) { 0x0609_0011 } else { 0x0602_0000 })
                } else {
                    None
                });
                let n = obj.as_ref().map(|o| o.len()).unwrap_or(0);
                let expedited = srv.mode == Mode::Auto && (1..=4).contains(&n);
                let room = (c.rmbx as usize).saturating_sub(16);
                let segmented = !expedited && match &srv.mode {
                    Mode::Seg(f, _) if n > 4 => (*f).min(room) < n,
                    _ => room < n,
                };
                rep.hit(&format!("upload:{}", if abort.is_some() { "abort" } else if expedited { "expedited" } else if segmented { "segmented" } else { "normal" }));
                rep.hit(&format!("objsize:{}", match n { 0 => "0", 1..=4 => "1-4", 5..=6 => "5-6", 7..=15 => "7-15", 16..=127 => "16-127", _ => "128-512" }));
                let expect = if emergency {
                    let e = &srv.emerg[0];
                    Some(Expect::Result(format!("err:Emergency({},{})", u16::from_le_bytes([e[0], e[1]]), e[2])))
                } else if let Some(code) = abort {
                    Some(Expect::Result(format!("err:Aborted({code},{index},{sub})")))
                } else if !expedited && n > dest_capacity_bytes(d) {
                    Some(Expect::Result(format!("err:TooLong({index},{sub})")))
                } else if dest_takes_all(d, obj.as_ref().unwrap()) {
                    Some(Expect::Value(obj.clone().unwrap()))
                } else {
                    None
                };
                let ok = match &expect {
                    Some(Expect::Value(v)) => o.ok_bytes.as_ref() == Some(v),
                    Some(Expect::Result(r)) => &o.result == r,
                    None => true,
                };
                if ok && matches!(expect, Some(Expect::Value(_))) {
                    rep.nontrivial.insert(line.clone());
                }
                if !ok {
                    let key = if emergency {
                        "c15/emergency-not-reported".to_string()
                    } else if segmented && abort.is_none() && matches!(expect, Some(Expect::Value(_))) {
                        if srv.scs == 0 { "c15/segment-response-scs0".to_string() } else { "c15/segment-data-offset".to_string() }
                    } else if matches!(d, Dest::Warr(_)) && !expedited && abort.is_none() {
                        "c15/word-array-buffer".to_string()
                    } else {
                        format!("c15/read-mismatch:{}:{}", if expedited { "expedited" } else if segmented { "segmented" } else { "normal" }, d.token().chars().next().unwrap())
                    };
                    rep.fail(&key, &format!("expected {:?}, got {}", expect.as_ref().map(|e| match e { Expect::Value(v) => format!("ok:{}", hex(v)), Expect::Result(r) => r.clone() }), o.result), &line);
                }
            }
            Op::Write(index, acc, value) => {
                let sub = match acc {
                    Access::Complete => 1,
                    Access::Index(s) => *s,
                };
                if value.len() <= 4 {
                    // the request on the wire
                    let want = expected_download(o.ctr_before, *index, acc, value, c.wmbx as usize);
                    if o.reqs.first() != Some(&want) {
                        rep.fail("c15/write-request", &format!("request {} expected {}", o.reqs.first().map(|r| hex(r)).unwrap_or_default(), hex(&want)), &line);
                    }
                    let exists = srv.dict.get(&(*index, sub)).map(|v| v.len());
                    let expect = if emergency {
                        let e = &srv.emerg[0];
                        format!("err:Emergency({},{})", u16::from_le_bytes([e[0], e[1]]), e[2])
                    } else if let Some(code) = srv.aborts.get(&(*index, sub)) {
                        format!("err:Aborted({code},{index},{sub})")
                    } else if matches!(acc, Access::Complete) {
                        String::new()
                    } else {
                        match exists {
                            None => format!("err:Aborted({},{index},{sub})", if srv.dict.keys().any(|k| k.0 == *index) { 0x0609_0011u32 } else { 0x0602_0000 }),
                            Some(l) if l != value.len() => format!("err:Aborted({},{index},{sub})", 0x0607_0010u32),
                            Some(_) => "ok".to_string(),
                        }
                    };
                    if !expect.is_empty() && o.result != expect {
                        // a value of zero bytes cannot be expressed by an expedited download: size field 0 means 4 bytes
                        let key = if emergency { "c15/emergency-not-reported" } else if value.is_empty() { "c15/write-zero-length" } else { "c15/write-result" };
                        rep.fail(key, &format!("expected {expect}, got {}", o.result), &line);
                    }
                    if expect == "ok" {
                        if od.get(&(*index, sub)) != Some(value) {
                            rep.fail(if value.is_empty() { "c15/write-zero-length" } else { "c15/write-not-delivered" }, &format!("dictionary holds {:?}", od.get(&(*index, sub)).map(|v| hex(v))), &line);
                        } else {
                            rep.nontrivial.insert(line.clone());
                        }
                    }
                }
            }
            Op::ReadArr(d, max, index) => {
                if !emergency && srv.aborts.is_empty() {
                    if let Some(n) = srv.dict.get(&(*index, 0)).and_then(|v| if v.len() == 1 { Some(v[0] as usize) } else { None }) {
                        let w = d.buf_len();
                        let subs: Vec<Option<&Vec<u8>>> = (1..=n).map(|k| srv.dict.get(&(*index, k as u8))).collect();
                        if n <= *max && subs.iter().all(|v| v.map(|v| v.len()) == Some(w)) {
                            let want: Vec<u8> = subs.iter().flat_map(|v| v.unwrap().clone()).collect();
                            // a never-expedited server with a mailbox too small for the element answers segmented
                            let room = (c.rmbx as usize).saturating_sub(16);
                            let seg_involved = srv.mode != Mode::Auto && (room < 1 || (n > 0 && room < w));
                            if o.result != format!("ok:{}:{}", n, hex(&want)) {
                                let key = if !seg_involved { "c15/read-array" } else if srv.scs == 0 { "c15/segment-response-scs0" } else { "c15/segment-data-offset" };
                                rep.fail(key, &format!("expected ok:{n}:{}, got {}", hex(&want), o.result), &line);
                            } else {
                                rep.nontrivial.insert(line.clone());
                            }
                        } else if n > *max
                            && subs.iter().take(*max + 1).all(|v| v.map(|v| v.len()) == Some(w))
                            && !(srv.mode != Mode::Auto && (c.rmbx as usize).saturating_sub(16) < w.max(1))
                            && o.result != "err:Capacity"
                        {
                            // (only when the entries read BEFORE the capacity is exceeded are well-formed elements read
                            // without segmentation: otherwise an earlier, different error is legitimate — false alarm met
                            // with more cases: entry 1 held 2 bytes for a u32 array)
                            rep.fail("c15/read-array", &format!("{n} entries > MAX_ENTRIES {max}: expected err:Capacity, got {}", o.result), &line);
                        }
                    }
                }
            }
            Op::WriteArr(index, vs) => {
                let all_exist = srv.dict.get(&(*index, 0)).map(|v| v.len()) == Some(1)
                    && vs.iter().enumerate().all(|(k, v)| srv.dict.get(&(*index, (k + 1) as u8)).map(|o| o.len()) == Some(v.len()));
                if !emergency && srv.aborts.is_empty() && all_exist && vs.len() < 256 {
                    let mut want_reqs = vec![expected_download(o.ctr_before, *index, &Access::Index(0), &[0], c.wmbx as usize)];
                    let mut cc = next_ctr(o.ctr_before);
                    for (k, v) in vs.iter().enumerate() {
                        want_reqs.push(expected_download(cc, *index, &Access::Index((k + 1) as u8), v, c.wmbx as usize));
                        cc = next_ctr(cc);
                    }
                    want_reqs.push(expected_download(cc, *index, &Access::Index(0), &[vs.len() as u8], c.wmbx as usize));
                    let mut ok = o.result == "ok" && o.reqs == want_reqs && od.get(&(*index, 0)) == Some(&vec![vs.len() as u8]);
                    for (k, v) in vs.iter().enumerate() {
                        ok &= od.get(&(*index, (k + 1) as u8)) == Some(v);
                    }
                    if !ok {
                        rep.fail("c15/write-array", &format!("result {} / requests / dictionary differ from sub-index-wise writes of {} values", o.result, vs.len()), &line);
                    } else {
                        rep.nontrivial.insert(line.clone());
                    }
                }
            }
            _ => {}
        }
    }
    if let (Dev::Script(_), Some(e)) = (&c.dev, &c.expect) {
        let ok = match e {
            Expect::Value(v) => o.ok_bytes.as_ref() == Some(v),
            Expect::Result(r) => &o.result == r,
        };
        if !ok {
            let key = match c.what {
                "compensating-first" => "c15/segmented-initiate-data-ignored",
                "foreign-response" => "c15/foreign-response",
                other => other,
            };
            rep.fail(key, &format!("expected {:?}, got {}", e, o.result), &line);
        } else if matches!(e, Expect::Value(_)) {
            rep.nontrivial.insert(line.clone());
        }
    }
    if o.result == "panic" && !matches!(&c.dev, Dev::Server(s) if !s.emerg.is_empty()) {
        rep.fail("c15/panic", &format!("panic: {}", o.panic_info.clone().unwrap_or_default()), &line);
    }
    if o.result == "stuck" || o.result == "deadlock" {
        rep.fail("c15/stuck", &format!("executor {}", o.result), &line);
    }
    rep.case(line, answer);
}

// ---------------------------------------------------------------- generators

const ABORT_CODES: &[u32] = &[
    0x0503_0000, 0x0504_0000, 0x0504_0001, 0x0504_0005, 0x0601_0000, 0x0601_0001, 0x0601_0002, 0x0601_0003, 0x0601_0004, 0x0601_0005,
    0x0601_0006, 0x0602_0000, 0x0604_0041, 0x0604_0042, 0x0604_0043, 0x0604_0047, 0x0606_0000, 0x0607_0010, 0x0607_0012, 0x0607_0013,
    0x0609_0011, 0x0609_0030, 0x0609_0031, 0x0609_0032, 0x0609_0036, 0x0800_0000, 0x0800_0020, 0x0800_0021, 0x0800_0022, 0x0800_0023,
    0x1234_5678, 0, 0xffff_ffff,
];

fn obj_bytes(rng: &mut Rng, n: usize, ascii: bool) -> Vec<u8> {
    (0..n).map(|_| if ascii { 0x20 + (rng.below(0x5f) as u8) } else { rng.byte() }).collect()
}

fn plain_srv(index: u16, sub: u8, obj: Vec<u8>, mode: Mode) -> Srv {
    let mut dict = BTreeMap::new();
    dict.insert((index, sub), obj);
    Srv { dict, aborts: BTreeMap::new(), mode, scs: 0, emerg: vec![] }
}

fn dest_for(rng: &mut Rng, n: usize) -> Dest {
    // mostly destinations that hand back every byte of an n-byte object
    match rng.below(10) {
        0 | 1 | 2 => Dest::Vecb(*VEC_SIZES.iter().find(|c| **c >= n).unwrap_or(&1024)),
        3 => Dest::Vecb(*rng.pick(VEC_SIZES)),
        4 => match n {
            1 => Dest::U8,
            2 => Dest::U16,
            4 => Dest::U32,
            8 => Dest::U64,
            _ => Dest::Arr(if ARR_SIZES.contains(&n) { n } else { *rng.pick(ARR_SIZES) }),
        },
        5 => Dest::Arr(if ARR_SIZES.contains(&n) { n } else { *rng.pick(ARR_SIZES) }),
        6 => Dest::Str(*STR_SIZES.iter().find(|c| **c >= n).unwrap_or(&512)),
        7 => Dest::Warr(if n % 2 == 0 && WARR_SIZES.contains(&(n / 2)) { n / 2 } else { *rng.pick(WARR_SIZES) }),
        8 => rng.pick(&[Dest::U8, Dest::U16, Dest::U32, Dest::U64]).clone(),
        _ => Dest::Str(*rng.pick(STR_SIZES)),
    }
}

fn stale_msgs(rng: &mut Rng, rmbx: u16) -> Vec<Vec<u8>> {
    let n = match rng.below(6) {
        0 => 0,
        1 => 10,
        _ => rng.range(1, 9) as usize,
    };
    (0..n)
        .map(|_| match rng.below(4) {
            // a plausible expedited response for another object
            0 => vec![0x0a, 0, 0, 0, 0, 0x13, 0, 0x30, 0x43, 0x34, 0x12, 0x05, 9, 9, 9, 9],
            // a full mailbox of garbage
            1 => rng.bytes(rmbx as usize),
            2 => vec![0x0a, 0, 0, 0, 0, 0x23, 0, 0x10, 0x11, 0x22, 0x33, 1, 2, 3, 4, 5],
            _ => {
                let k = rng.range(0, 24) as usize;
                rng.bytes(k)
            }
        })
        .collect()
}

/// All compositions of `n` into positive parts (2^(n-1) of them), each part at most `cap`.
fn compositions(n: usize, cap: usize) -> Vec<Vec<usize>> {
    if n == 0 {
        return vec![vec![]];
    }
    let mut out = Vec::new();
    for k in 1..=n.min(cap) {
        for mut rest in compositions(n - k, cap) {
            let mut v = vec![k];
            v.append(&mut rest);
            out.push(v);
        }
    }
    out
}

fn gen_cases(tier: &str, rng: &mut Rng, out: &mut dyn FnMut(Case)) {
    let thorough = tier == "thorough";
    let mk = |rmbx: u16, dev: Dev, op: Op, what: &'static str| Case { rmbx, wmbx: 32, ctr: None, stale: vec![], dev, op, what, expect: None };
    let rmbx_pool: Vec<u16> = if thorough { (16..=1024).collect() } else { vec![16, 17, 18, 19, 20, 21, 22, 23, 24, 25, 27, 32, 33, 48, 64, 100, 128, 255, 256, 512, 528, 1024] };

    // ---- 1. every object size x every upload mode the server may choose
    let step = if thorough { 1 } else { 3 };
    let mut n = 0usize;
    while n <= 512 {
        let picks = if thorough { 16 } else { 3 };
        for _ in 0..picks {
            let rmbx = *rng.pick(&rmbx_pool);
            let ascii = rng.chance(1, 3);
            let obj = obj_bytes(rng, n, ascii);
            let room = rmbx as usize - 16;
            let segroom = (rmbx as usize - 9).max(7);
            let modes = [
                Mode::Auto,
                Mode::Normal,
                Mode::Seg(rng.below(room as u64 + 1) as usize, vec![rng.range(1, segroom as u64) as usize; 600]),
                Mode::Seg(0, vec![rng.range(1, 12) as usize; 600]),
                Mode::Seg(room, vec![segroom; 600]),
            ];
            for mode in modes {
                let d = dest_for(rng, n);
                let mut srv = plain_srv(0x2000, 3, obj.clone(), mode);
                srv.scs = if rng.chance(1, 2) { 0 } else { 3 };
                let mut c = mk(rmbx, Dev::Server(srv), Op::Read(d, 0x2000, Access::Index(3)), "size-x-mode");
                if rng.chance(1, 4) {
                    c.stale = stale_msgs(rng, rmbx);
                }
                c.wmbx = *rng.pick(&[16u16, 17, 32, 64, 128, 1024]);
                out(c);
            }
        }
        n += if n < 24 { 1 } else { step };
    }

    // ---- 2. all segment-length patterns for small objects (every composition of the part sent in segments)
    let max_small = if thorough { 11 } else { 7 };
    for n in 5..=max_small {
        for first in 0..=n.min(4) {
            if first == n {
                continue;
            }
            for pat in compositions(n - first, 9) {
                for scs in [0u8, 3] {
                    if !thorough && scs == 3 && rng.chance(1, 2) {
                        continue;
                    }
                    let obj = obj_bytes(rng, n, false);
                    let mut srv = plain_srv(0x2001, 0, obj, Mode::Seg(first, pat.clone()));
                    srv.scs = scs;
                    out(mk(*rng.pick(&[20u16, 24, 32]), Dev::Server(srv), Op::Read(Dest::Vecb(16), 0x2001, Access::Index(0)), "all-patterns"));
                }
            }
        }
    }
    // random patterns for large objects, incl. a last segment below 7 bytes
    let n_pat = if thorough { 30_000 } else { 2_000 };
    for _ in 0..n_pat {
        let rmbx = *rng.pick(&rmbx_pool);
        let n = rng.range(5, 512) as usize;
        let room = rmbx as usize - 16;
        let segroom = (rmbx as usize - 9).max(7);
        let first = rng.edgy(room.min(n) as u64) as usize;
        let mut pat = Vec::new();
        let mut left = n - first.min(n);
        while left > 0 && pat.len() < 600 {
            let k = (match rng.below(4) {
                0 => rng.range(1, 6),
                1 => 7,
                _ => rng.range(1, segroom as u64),
            } as usize)
                .min(left);
            pat.push(k);
            left -= k;
        }
        let obj = obj_bytes(rng, n, false);
        let mut srv = plain_srv(0x2002, 1, obj, Mode::Seg(first, pat));
        srv.scs = if rng.chance(1, 2) { 0 } else { 3 };
        out(mk(rmbx, Dev::Server(srv), Op::Read(dest_for(rng, n), 0x2002, Access::Index(1)), "random-patterns"));
    }

    // ---- 3. primitive / array / string destinations against objects of exactly, less and more bytes
    let dests: Vec<Dest> = [Dest::U8, Dest::U16, Dest::U32, Dest::U64]
        .into_iter()
        .chain(ARR_SIZES.iter().map(|n| Dest::Arr(*n)))
        .chain(WARR_SIZES.iter().map(|n| Dest::Warr(*n)))
        .chain(STR_SIZES.iter().map(|n| Dest::Str(*n)))
        .chain(VEC_SIZES.iter().map(|n| Dest::Vecb(*n)))
        .collect();
    for d in &dests {
        let cap = dest_capacity_bytes(d);
        for n in [cap, cap.saturating_sub(1), cap + 1, d.buf_len(), 0, 4] {
            if n > 512 {
                continue;
            }
            for mode in [Mode::Auto, Mode::Normal] {
                let rmbx = *rng.pick(&[32u16, 64, 128, 1024]);
                let rmbx = if (n + 16) as u16 > rmbx && rng.chance(3, 4) { 1024 } else { rmbx };
                let ascii = matches!(d, Dest::Str(_)) && rng.chance(3, 4);
                let srv = plain_srv(0x2003, 2, obj_bytes(rng, n, ascii), mode);
                out(mk(rmbx, Dev::Server(srv), Op::Read(d.clone(), 0x2003, Access::Index(2)), "destinations"));
            }
        }
    }

    // ---- 4. complete access, aborts, emergencies, unknown objects
    let n4 = if thorough { 30_000 } else { 4_000 };
    for _ in 0..n4 {
        let rmbx = *rng.pick(&rmbx_pool);
        let index = *rng.pick(&[0x1c12u16, 0x2000, 0x6000, 0xffff]);
        let mut dict = BTreeMap::new();
        let nsub = rng.range(0, 6) as u8;
        dict.insert((index, 0), vec![nsub]);
        for k in 1..=nsub {
            let w = *rng.pick(&[1usize, 2, 4]);
            dict.insert((index, k), rng.bytes(w));
        }
        let mut srv = Srv { dict, aborts: BTreeMap::new(), mode: rng.pick(&[Mode::Auto, Mode::Normal]).clone(), scs: 0, emerg: vec![] };
        let sub = rng.range(0, nsub as u64 + 1) as u8;
        let acc = if rng.chance(1, 3) { Access::Complete } else { Access::Index(sub) };
        let kind = rng.below(8);
        if kind == 0 {
            srv.aborts.insert((index, if acc == Access::Complete { 1 } else { sub }), *rng.pick(ABORT_CODES));
        }
        if kind == 1 {
            let mut e = [0u8; 8];
            for b in e.iter_mut() {
                *b = rng.byte();
            }
            srv.emerg.push(e);
        }
        let rd_index = if kind == 2 { index.wrapping_add(1) } else { index };
        let op = match rng.below(5) {
            0 => {
                let l = rng.range(0, 5) as usize;
                Op::Write(rd_index, acc, rng.bytes(l))
            }
            1 => Op::ReadArr(rng.pick(&[Dest::U8, Dest::U16, Dest::U32]).clone(), *rng.pick(MAX_ENTRIES), rd_index),
            2 => {
                let w = *rng.pick(&[1usize, 2, 4]);
                let l = rng.range(0, 6) as usize;
                Op::WriteArr(rd_index, (0..l).map(|_| rng.bytes(w)).collect())
            }
            _ => Op::Read(Dest::Vecb(64), rd_index, acc),
        };
        let mut c = mk(rmbx, Dev::Server(srv), op, "dictionary");
        if rng.chance(1, 4) {
            c.stale = stale_msgs(rng, rmbx);
        }
        out(c);
    }
    // values of 0..4 bytes written to objects of the same length (and of another length)
    for n in 0..=4usize {
        for m in [n, (n + 1) % 5] {
            let srv = plain_srv(0x2005, 1, vec![0x5a; m], Mode::Auto);
            let v: Vec<u8> = (1..=n as u8).collect();
            out(mk(32, Dev::Server(srv.clone()), Op::Write(0x2005, Access::Index(1), v.clone()), "write-lengths"));
            out(mk(32, Dev::Server(srv), Op::Write(0x2005, Access::Complete, v), "write-lengths"));
        }
    }
    // every abort code, for read and write
    for code in ABORT_CODES {
        for wr in [false, true] {
            let mut srv = plain_srv(0x2004, 1, vec![1, 2], Mode::Auto);
            srv.aborts.insert((0x2004, 1), *code);
            let op = if wr { Op::Write(0x2004, Access::Index(1), vec![7, 7]) } else { Op::Read(Dest::U16, 0x2004, Access::Index(1)) };
            out(mk(32, Dev::Server(srv), op, "abort-codes"));
        }
    }
    // arrays whose elements match the destination: consistent read / write of sub-indices 1..n and the count
    let n_arr = if thorough { 8000 } else { 1_200 };
    for _ in 0..n_arr {
        let w = *rng.pick(&[1usize, 2, 4]);
        let d = match w {
            1 => Dest::U8,
            2 => Dest::U16,
            _ => Dest::U32,
        };
        let n = rng.edgy(9) as u8;
        let mut dict = BTreeMap::new();
        dict.insert((0x1c13, 0), vec![n]);
        for k in 1..=n.max(rng.range(0, 9) as u8) {
            dict.insert((0x1c13, k), rng.bytes(w));
        }
        let srv = Srv { dict, aborts: BTreeMap::new(), mode: Mode::Auto, scs: 0, emerg: vec![] };
        let op = if rng.chance(1, 2) {
            Op::ReadArr(d, *rng.pick(MAX_ENTRIES), 0x1c13)
        } else {
            let l = rng.range(0, n.max(1) as u64) as usize;
            Op::WriteArr(0x1c13, (0..l).map(|_| rng.bytes(w)).collect())
        };
        out(mk(*rng.pick(&[16u16, 32, 128]), Dev::Server(srv), op, "arrays"));
    }

    // ---- 5. scripted devices: a response for a different object; a server that compensates for the segment
    //         offset / command so that only the treatment of the initiate response's data is observed
    for (di, ds) in [(1u16, 0u8), (0, 1), (0x100, 0), (0, 0xff)] {
        let (ri, rs) = (0x2000u16.wrapping_add(di), 3u8.wrapping_add(ds));
        let reply = vec![0x0a, 0, 0, 0, 0, 0x13, 0, 0x30, 0x43, ri as u8, (ri >> 8) as u8, rs, 1, 2, 3, 4];
        let mut c = mk(32, Dev::Script(vec![vec![reply]]), Op::Read(Dest::U32, 0x2000, Access::Index(3)), "foreign-response");
        c.expect = Some(Expect::Result(format!("err:ResponseInvalid({ri},{rs})")));
        out(c);
        let reply = vec![0x0a, 0, 0, 0, 0, 0x13, 0, 0x30, 0x60, ri as u8, (ri >> 8) as u8, rs, 0, 0, 0, 0];
        let mut c = mk(32, Dev::Script(vec![vec![reply]]), Op::Write(0x2000, Access::Index(3), vec![1]), "foreign-response");
        c.expect = Some(Expect::Result(format!("err:ResponseInvalid({ri},{rs})")));
        out(c);
    }
    for first in [0usize, 1, 6] {
        for n in [8usize, 20, 31] {
            let obj: Vec<u8> = (0..n as u8).map(|x| x.wrapping_mul(7).wrapping_add(1)).collect();
            // initiate: complete size n, `first` data bytes
            let mut b = vec![0x41, 0x00, 0x20, 0x00];
            b.extend_from_slice(&(n as u32).to_le_bytes());
            b.extend_from_slice(&obj[..first]);
            let mut init = ((2 + b.len()) as u16).to_le_bytes().to_vec();
            init.extend_from_slice(&[0, 0, 0, 0x13, 0, 0x30]);
            init.extend_from_slice(&b);
            let mut sc = vec![vec![init]];
            let mut pos = first;
            let mut toggle = false;
            while pos < n {
                let k = (n - pos).min(9);
                let last = pos + k >= n;
                let unused = if k < 7 { 7 - k } else { 0 } as u8;
                // command 3, three filler bytes, then the data (where ethercrab looks for it)
                let mut m = (if k < 7 { 10u16 } else { 3 + k as u16 }).to_le_bytes().to_vec();
                m.extend_from_slice(&[0, 0, 0, 0x23, 0, 0x30, (3 << 5) | ((toggle as u8) << 4) | (unused << 1) | last as u8, 0xee, 0xee, 0xee]);
                m.extend_from_slice(&obj[pos..pos + k]);
                m.resize(m.len().max(19), 0);
                sc.push(vec![m]);
                pos += k;
                toggle = !toggle;
            }
            let mut c = mk(40, Dev::Script(sc), Op::Read(Dest::Vecb(64), 0x2000, Access::Index(0)), if first == 0 { "compensating" } else { "compensating-first" });
            c.expect = Some(Expect::Value(obj));
            out(c);
        }
    }
}

fn main() {
    let args = ecverif::parse_args();
    install_panic_recorder();
    let mut rep = Report::default();
    let mut rigs = Rigs::default();
    if let Some(lines) = ecverif::replay_cases(&args) {
        for l in lines {
            match parse_case(&l) {
                Some(c) => run_case(&mut rigs, &mut rep, &c),
                None => rep.notes.push(format!("replay: cannot parse case line: {}", &l[..l.len().min(200)])),
            }
        }
        rep.write(&args.out, PROP);
        return;
    }
    let mut rng = Rng::new(args.seed ^ 0xc15);
    let mut cases: Vec<Case> = Vec::new();
    gen_cases(&args.tier, &mut rng, &mut |c| cases.push(c));
    cases.sort_by_key(|c| (c.rmbx, c.wmbx));
    for c in &cases {
        run_case(&mut rigs, &mut rep, c);
    }
    rep.notes.push(format!("rigs initialised through MainDevice::init_single_group: {}", rigs.inits));
    rep.notes.push(format!("build profile: overflow-checks={} debug-assertions={}", overflow_checks(), cfg!(debug_assertions)));
    rep.write(&args.out, PROP);
}
