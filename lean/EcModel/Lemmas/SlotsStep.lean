/-
  Step function over API operations for the sequential storage model (`Slots.lean`), reachability,
  and the ownership invariant `J` (used by C03 and C06).

  `Op` has one constructor per operation token of `Drv/Seq.lean`; `step` is the same dispatch as
  `Drv.Seq.stepOp` after parsing, plus the three side conditions the harness' generator (and Rust's
  ownership) guarantee:
    * `alloc r` / `txNext r` put the new handle into a register that is free (a Rust `let`: storing
      into an occupied register would run the old handle's destructor, which is a separate op here);
    * `reset` needs `&mut PduLoop`, i.e. no handle borrowed from it is alive.
-/
import EcModel.Slots
import EcModel.Lemmas.SlotsLemmas

namespace Ec

/-! ## operations -/

inductive Op where
  | alloc (r : Nat)
  | push (r : Nat) (c : Cmd) (data : List Nat) (lenOv : Option Nat)
  | rest (r : Nat) (c : Cmd) (bytes : List Nat)
  | mark (r retries timeout : Nat)
  | dropCreated (r : Nat)
  | txNext (r : Nat)
  | txSend (r outcome : Nat)
  | rx (bytes : List Nat)
  | poll (r : Nat)
  | dropFut (r : Nat)
  | first (r code idx : Nat)
  | iter (r maxItems : Nat)
  | dropReceived (r : Nat)
  | viewRead (r : Nat)
  | viewTrim (r ct : Nat)
  | dropView (r : Nat)
  | advance (us : Nat)
  | reset
  | snap

/-- One API operation. -/
def step (w : World) : Op → World × String
  | .alloc r => if (getH w.2 r).isNone then opAlloc w r else (w, "bad-op")
  | .push r c d l => opPush w r c d l
  | .rest r c b => opRest w r c b
  | .mark r retries timeout => opMark w r retries timeout
  | .dropCreated r => opDropCreated w r
  | .txNext r => if (getH w.2 r).isNone then opTxNext w r else (w, "bad-op")
  | .txSend r o => opTxSend w r o
  | .rx b => opRx w b
  | .poll r => opPoll w r
  | .dropFut r => opDropFut w r
  | .first r code idx => opFirst w r code idx
  | .iter r m => opIter w r m
  | .dropReceived r => opDropReceived w r
  | .viewRead r => opViewRead w r
  | .viewTrim r ct => opViewTrim w r ct
  | .dropView r => opDropView w r
  | .advance us => opAdvance w us
  | .reset => if w.2.isEmpty then opReset w else (w, "bad-op")
  | .snap => opSnap w

/-- World after a history. -/
def run (w : World) (ops : List Op) : World := ops.foldl (fun w op => (step w op).1) w

/-- Result tokens of a history (what the line protocol prints). -/
def outs (w : World) : List Op → List String
  | [] => []
  | op :: ops => (step w op).2 :: outs (step w op).1 ops

/-- The initial world of a case line: fresh storage, counters preset, no handles. -/
def World.init (n data fi pi : Nat) : World :=
  ({ Sys.init n data with frameIdx := fi, pduIdx := pi }, [])

/-- Reachable from a fresh storage of `n` slots of `data` bytes by some history. -/
def Reach (n data : Nat) (w : World) : Prop := ∃ fi pi ops, w = run (World.init n data fi pi) ops

theorem run_nil (w : World) : run w [] = w := rfl
theorem run_cons (w : World) (op : Op) (ops : List Op) : run w (op :: ops) = run (step w op).1 ops := rfl
theorem run_append (w : World) (a b : List Op) : run w (a ++ b) = run (run w a) b := by
  simp [run, List.foldl_append]

theorem Reach.step {n data : Nat} {w : World} (h : Reach n data w) (op : Op) : Reach n data (step w op).1 := by
  obtain ⟨fi, pi, ops, e⟩ := h
  exact ⟨fi, pi, ops ++ [op], by rw [run_append, ← e]; rfl⟩

theorem Reach.run {n data : Nat} {w : World} (h : Reach n data w) (ops : List Op) : Reach n data (run w ops) := by
  induction ops generalizing w with
  | nil => exact h
  | cons op ops ih => exact ih (h.step op)

/-! ## handle registers -/

theorem mem_delH {hs : List Hd} {r : Nat} {h : Hd} : h ∈ delH hs r ↔ h ∈ hs ∧ h.reg ≠ r := by
  simp [delH]

theorem mem_putH {hs : List Hd} {x h : Hd} : h ∈ putH hs x ↔ h = x ∨ (h ∈ hs ∧ h.reg ≠ x.reg) := by
  simp [putH, mem_delH]

theorem getH_some {hs : List Hd} {r : Nat} {h : Hd} (e : getH hs r = some h) : h ∈ hs ∧ h.reg = r := by
  unfold getH at e
  exact ⟨List.mem_of_find?_eq_some e, by simpa using List.find?_some e⟩

theorem getH_none {hs : List Hd} {r : Nat} (e : getH hs r = none) : ∀ h ∈ hs, h.reg ≠ r := by
  simpa [getH, List.find?_eq_none] using e

theorem getH_isNone {hs : List Hd} {r : Nat} (e : (getH hs r).isNone = true) : ∀ h ∈ hs, h.reg ≠ r :=
  getH_none (by simpa using e)

/-- Registers hold at most one handle each. -/
def Regs (hs : List Hd) : Prop := (hs.map (·.reg)).Nodup

theorem regs_delH {hs : List Hd} (h : Regs hs) (r : Nat) : Regs (delH hs r) := by
  unfold Regs delH at *
  exact h.sublist ((List.filter_sublist).map _)

theorem regs_putH {hs : List Hd} (h : Regs hs) (x : Hd) : Regs (putH hs x) := by
  have h' := regs_delH h x.reg
  unfold Regs putH at *
  simp only [List.map_cons, List.nodup_cons]
  refine ⟨?_, h'⟩
  intro hm
  obtain ⟨y, hy, e⟩ := List.mem_map.mp hm
  exact (mem_delH.mp hy).2 e

theorem regs_inj {hs : List Hd} (h : Regs hs) {a b : Hd} (ha : a ∈ hs) (hb : b ∈ hs) (e : a.reg = b.reg) :
    a = b := by
  induction hs with
  | nil => cases ha
  | cons x xs ih =>
    unfold Regs at h
    simp only [List.map_cons, List.nodup_cons] at h
    rcases List.mem_cons.mp ha with rfl | ha' <;> rcases List.mem_cons.mp hb with rfl | hb'
    · rfl
    · exact absurd (List.mem_map.mpr ⟨b, hb', e.symm⟩) h.1
    · exact absurd (List.mem_map.mpr ⟨a, ha', e⟩) h.1
    · exact ih h.2 ha' hb'

theorem getH_of_mem {hs : List Hd} (h : Regs hs) {a : Hd} (ha : a ∈ hs) : getH hs a.reg = some a := by
  cases e : getH hs a.reg with
  | none => exact absurd rfl (getH_none e a ha)
  | some b =>
    obtain ⟨hb, eb⟩ := getH_some e
    rw [regs_inj h hb ha eb]

theorem getH_putH_self {hs : List Hd} (hr : Regs hs) (y : Hd) : getH (putH hs y) y.reg = some y :=
  getH_of_mem (regs_putH hr y) (mem_putH.mpr (Or.inl rfl))

theorem getH_putH_other {hs : List Hd} (hr : Regs hs) (y : Hd) {r : Nat} (hne : r ≠ y.reg) :
    getH (putH hs y) r = getH hs r := by
  cases e : getH hs r with
  | none =>
    cases e' : getH (putH hs y) r with
    | none => rfl
    | some x =>
      obtain ⟨hx, hxr⟩ := getH_some e'
      rcases mem_putH.mp hx with rfl | ⟨a, _⟩
      · exact absurd hxr.symm hne
      · exact absurd hxr (getH_none e x a)
  | some x =>
    obtain ⟨hx, hxr⟩ := getH_some e
    rw [← hxr]
    exact getH_of_mem (regs_putH hr y) (mem_putH.mpr (Or.inr ⟨hx, by rw [hxr]; exact hne⟩))

theorem getH_delH_other {hs : List Hd} (hr : Regs hs) {r r' : Nat} (hne : r ≠ r') :
    getH (delH hs r') r = getH hs r := by
  cases e : getH hs r with
  | none =>
    cases e' : getH (delH hs r') r with
    | none => rfl
    | some x =>
      obtain ⟨hx, hxr⟩ := getH_some e'
      exact absurd hxr (getH_none e x (mem_delH.mp hx).1)
  | some x =>
    obtain ⟨hx, hxr⟩ := getH_some e
    rw [← hxr]
    exact getH_of_mem (regs_delH hr r') (mem_delH.mpr ⟨hx, by rw [hxr]; exact hne⟩)

/-! ## slots -/

theorem slot_ge (s : Sys) (i : Nat) (h : ¬ i < s.n) : s.slot i = dummySlot := by
  simp [Sys.slot, Sys.n] at *
  simp [h]

theorem slot_setSlot (s : Sys) (i j : Nat) (x : Slot) :
    (s.setSlot i x).slot j = if j = i ∧ i < s.n then x else s.slot j := by
  by_cases h : j = i
  · subst h
    by_cases hn : j < s.n
    · simp [hn, slot_setSlot_eq s j x hn]
    · simp [hn]
      rw [slot_ge _ _ (by simpa [n_setSlot] using hn), slot_ge _ _ hn]
  · simp [h, slot_setSlot_ne s i j x h]

theorem slot_congr {s s' : Sys} (e : s'.slots = s.slots) (i : Nat) : s'.slot i = s.slot i := by
  simp [Sys.slot, e]

theorem n_congr {s s' : Sys} (e : s'.slots = s.slots) : s'.n = s.n := by
  simp [Sys.n, e]

/-! ## the ownership invariant -/

/-- Ownership class of a slot state: 0 free, 1 being built, 2 in flight, 3 response being read. -/
def St.cls : St → Nat
  | .none => 0
  | .created => 1
  | .sendable => 2 | .sending => 2 | .sent => 2 | .rxBusy => 2 | .rxDone => 2
  | .rxProcessing => 3

/-- Ownership class of a handle kind; 4 = the TX side's `SendableFrame`, which owns nothing. -/
def HK.cls : HK → Nat
  | .created _ _ => 1
  | .fut _ _ _ _ => 2
  | .received => 3
  | .view _ _ _ => 3
  | .sendable => 4

theorem St.cls_eq_zero {st : St} : st.cls = 0 ↔ st = .none := by cases st <;> simp [St.cls]
theorem St.cls_lt (st : St) : st.cls < 4 := by cases st <;> simp [St.cls]

/-- **J**: every held slot has exactly one live owner handle of the compatible kind, owner handles
    refer to distinct slots, registers are unique. `SendableFrame` handles (class 4) are non-owning
    and may refer to any slot. -/
structure J (s : Sys) (hs : List Hd) : Prop where
  pos : 0 < s.n
  regs : Regs hs
  distinct : ∀ a ∈ hs, ∀ b ∈ hs, a.kind.cls ≠ 4 → b.kind.cls ≠ 4 → a.slot = b.slot → a = b
  compat : ∀ h ∈ hs, h.kind.cls ≠ 4 → (s.slot h.slot).st.cls = h.kind.cls
  held : ∀ i, (s.slot i).st ≠ .none → ∃ h ∈ hs, h.kind.cls ≠ 4 ∧ h.slot = i

theorem HK.cls_pos (k : HK) : 0 < k.cls := by cases k <;> simp [HK.cls]

theorem J.owner_lt {s : Sys} {hs : List Hd} (hJ : J s hs) {h : Hd} (hm : h ∈ hs) (ho : h.kind.cls ≠ 4) :
    h.slot < s.n := by
  by_cases hn : h.slot < s.n
  · exact hn
  exfalso
  have := hJ.compat h hm ho
  rw [slot_ge _ _ hn] at this
  have hp := h.kind.cls_pos
  simp [dummySlot, St.cls] at this
  omega

theorem J.congr {s s' : Sys} {hs : List Hd} (hJ : J s hs) (e : s'.slots = s.slots) : J s' hs := by
  refine ⟨by rw [n_congr e]; exact hJ.pos, hJ.regs, hJ.distinct, ?_, ?_⟩
  · intro h hm ho; rw [slot_congr e]; exact hJ.compat h hm ho
  · intro i hi; rw [slot_congr e] at hi; exact hJ.held i hi

/-- A slot changes state while its owner (if any) stays compatible; handles unchanged. -/
theorem J.set {s : Sys} {hs : List Hd} (hJ : J s hs) (k : Nat) (y : Slot)
    (hc : ∀ h ∈ hs, h.kind.cls ≠ 4 → h.slot = k → y.st.cls = h.kind.cls)
    (hn : y.st ≠ .none → (s.slot k).st ≠ .none) : J (s.setSlot k y) hs := by
  refine ⟨by rw [n_setSlot]; exact hJ.pos, hJ.regs, hJ.distinct, ?_, ?_⟩
  · intro h hm ho
    rw [slot_setSlot]
    split
    · next hk => exact hc h hm ho hk.1
    · exact hJ.compat h hm ho
  · intro i hi
    rw [slot_setSlot] at hi
    split at hi
    · next hk => rw [hk.1]; exact hJ.held k (hn hi)
    · exact hJ.held i hi

/-- The owner handle in register `r` is dropped and its slot released. -/
theorem J.del_owner {s : Sys} {hs : List Hd} (hJ : J s hs) {r : Nat} {h : Hd} (e : getH hs r = some h)
    (ho : h.kind.cls ≠ 4) (y : Slot) (hy : y.st = .none) : J (s.setSlot h.slot y) (delH hs r) := by
  obtain ⟨hm, hr⟩ := getH_some e
  refine ⟨by rw [n_setSlot]; exact hJ.pos, regs_delH hJ.regs r, ?_, ?_, ?_⟩
  · intro a ha b hb
    exact hJ.distinct a (mem_delH.mp ha).1 b (mem_delH.mp hb).1
  · intro a ha hoa
    obtain ⟨ham, har⟩ := mem_delH.mp ha
    have hne : a.slot ≠ h.slot := by
      intro es
      have := hJ.distinct a ham h hm hoa ho es
      exact har (this ▸ hr)
    rw [slot_setSlot, if_neg (fun c => hne c.1)]
    exact hJ.compat a ham hoa
  · intro i hi
    rw [slot_setSlot] at hi
    split at hi
    · exact absurd hy hi
    · next hk =>
      obtain ⟨a, ham, hoa, hs'⟩ := hJ.held i hi
      refine ⟨a, mem_delH.mpr ⟨ham, ?_⟩, hoa, hs'⟩
      intro har
      have : a = h := regs_inj hJ.regs ham hm (har.trans hr.symm)
      subst this
      exact hk ⟨hs'.symm, hJ.owner_lt hm ho⟩

/-- A non-owning handle is dropped. -/
theorem J.del_tx {s : Sys} {hs : List Hd} (hJ : J s hs) {r : Nat} {h : Hd} (e : getH hs r = some h)
    (ho : h.kind.cls = 4) : J s (delH hs r) := by
  obtain ⟨hm, hr⟩ := getH_some e
  refine ⟨hJ.pos, regs_delH hJ.regs r, ?_, ?_, ?_⟩
  · intro a ha b hb
    exact hJ.distinct a (mem_delH.mp ha).1 b (mem_delH.mp hb).1
  · intro a ha hoa
    exact hJ.compat a (mem_delH.mp ha).1 hoa
  · intro i hi
    obtain ⟨a, ham, hoa, hs'⟩ := hJ.held i hi
    refine ⟨a, mem_delH.mpr ⟨ham, ?_⟩, hoa, hs'⟩
    intro har
    have : a = h := regs_inj hJ.regs ham hm (har.trans hr.symm)
    subst this
    exact hoa ho

/-- A non-owning handle is stored into a free register. -/
theorem J.put_tx {s : Sys} {hs : List Hd} (hJ : J s hs) {r : Nat} (e : ∀ h ∈ hs, h.reg ≠ r) (k : Nat) :
    J s (putH hs ⟨r, k, .sendable⟩) := by
  refine ⟨hJ.pos, regs_putH hJ.regs _, ?_, ?_, ?_⟩
  · intro a ha b hb hoa hob
    rcases mem_putH.mp ha with rfl | ⟨ham, _⟩
    · simp [HK.cls] at hoa
    rcases mem_putH.mp hb with rfl | ⟨hbm, _⟩
    · simp [HK.cls] at hob
    exact hJ.distinct a ham b hbm hoa hob
  · intro a ha hoa
    rcases mem_putH.mp ha with rfl | ⟨ham, _⟩
    · simp [HK.cls] at hoa
    exact hJ.compat a ham hoa
  · intro i hi
    obtain ⟨a, ham, hoa, hs'⟩ := hJ.held i hi
    exact ⟨a, mem_putH.mpr (Or.inr ⟨ham, e a ham⟩), hoa, hs'⟩

/-- An owner handle for slot `k` is stored into register `r`; whatever was in `r` owned `k`, and
    nobody else does. -/
theorem J.put_owner {s : Sys} {hs : List Hd} (hJ : J s hs) (K : HK) (hK : K.cls ≠ 4) (k r : Nat) (y : Slot)
    (hk : k < s.n) (hc : y.st.cls = K.cls)
    (hrep : ∀ h ∈ hs, h.reg = r → h.kind.cls ≠ 4 ∧ h.slot = k)
    (hoth : ∀ h ∈ hs, h.reg ≠ r → h.kind.cls ≠ 4 → h.slot ≠ k) :
    J (s.setSlot k y) (putH hs ⟨r, k, K⟩) := by
  refine ⟨by rw [n_setSlot]; exact hJ.pos, regs_putH hJ.regs _, ?_, ?_, ?_⟩
  · intro a ha b hb hoa hob es
    rcases mem_putH.mp ha with rfl | ⟨ham, har⟩ <;> rcases mem_putH.mp hb with rfl | ⟨hbm, hbr⟩
    · rfl
    · exact absurd es.symm (hoth b hbm hbr hob)
    · exact absurd es (hoth a ham har hoa)
    · exact hJ.distinct a ham b hbm hoa hob es
  · intro a ha hoa
    rcases mem_putH.mp ha with rfl | ⟨ham, har⟩
    · simp only [slot_setSlot, hk, and_self, if_true]; exact hc
    · rw [slot_setSlot, if_neg (fun c => hoth a ham har hoa c.1)]
      exact hJ.compat a ham hoa
  · intro i hi
    rw [slot_setSlot] at hi
    split at hi
    · next hik => exact ⟨_, mem_putH.mpr (Or.inl rfl), hK, hik.1.symm⟩
    · next hik =>
      obtain ⟨a, ham, hoa, hs'⟩ := hJ.held i hi
      refine ⟨a, mem_putH.mpr (Or.inr ⟨ham, ?_⟩), hoa, hs'⟩
      intro har
      have := (hrep a ham har).2
      exact hik ⟨by omega, hk⟩

/-- The owner handle in register `r` changes kind and its slot changes state, compatibly. -/
theorem J.step_owner {s : Sys} {hs : List Hd} (hJ : J s hs) {r : Nat} {h : Hd} (e : getH hs r = some h)
    (ho : h.kind.cls ≠ 4) (K : HK) (hK : K.cls ≠ 4) (y : Slot) (hc : y.st.cls = K.cls) :
    J (s.setSlot h.slot y) (putH hs ⟨r, h.slot, K⟩) := by
  obtain ⟨hm, hr⟩ := getH_some e
  refine hJ.put_owner K hK h.slot r y (hJ.owner_lt hm ho) hc ?_ ?_
  · intro a ham har
    have : a = h := regs_inj hJ.regs ham hm (har.trans hr.symm)
    subst this; exact ⟨ho, rfl⟩
  · intro a ham har hoa es
    have : a = h := hJ.distinct a ham h hm hoa ho es
    subst this; exact har hr

end Ec
